#!/bin/bash
# dev helper: run one property single-process and summarise
cd /verif/mc && cargo build --release 2>&1 | grep -E "^error" -A12 | head -40
MC_DEBUG=${MC_DEBUG:-} ./target/release/mc run $1 --tier ${2:-quick} --shard ${3:-0/1} | python3 -c "
import json,sys
for l in sys.stdin:
    l=l.strip()
    if not l.startswith('{'): continue
    r=json.loads(l)
    if 'report' in r:
        r=r['report']
        print({k:r[k] for k in ['states','transitions','validated','nontrivial','subs','extra']})
        print(len(r['hist']),'classes')
        for k,v in sorted(r['fail_counts'].items()): print(v,k)
        seen=set()
        for f in r['failures']:
            if f['key'] in seen: continue
            seen.add(f['key']); print('  *',f['detail'][:300])
        for n in r['notes'][:10]: print('note',n)
    else: print(r)
"

//! Engine E1 core: sharded, replayable enumeration of finite spaces with
//! per-case outcome classes, failure keys and crash/hang attribution.
use serde_json::{json, Value as J};
use std::collections::BTreeMap;
use std::panic::{catch_unwind, AssertUnwindSafe};
use std::sync::atomic::{AtomicU64, Ordering};

#[derive(Clone, Copy, PartialEq, Eq, Debug)]
pub enum Tier {
    Quick,
    Thorough,
}

#[derive(Default)]
pub struct Report {
    /// distinct cases executed by this worker
    pub states: u64,
    /// executions of the subject (compiles, executes, operator applications, events)
    pub transitions: u64,
    /// cases whose oracle verdict was computed against the implementation
    pub validated: u64,
    /// cases that are non-trivial by the property's rule
    pub nontrivial: u64,
    pub hist: BTreeMap<String, u64>,
    pub samples: Vec<J>,
    pub failures: Vec<J>,
    pub fail_counts: BTreeMap<String, u64>,
    pub subs: BTreeMap<String, u64>,
    pub extra: BTreeMap<String, J>,
    pub notes: Vec<String>,
}

pub struct Run {
    pub tier: Tier,
    pub k: u64,
    pub n: u64,
    pub only: Option<(String, u64)>,
    pub verbose: bool,
    sub: String,
    idx: u64,
    pub rep: Report,
    sample_seen: BTreeMap<String, u32>,
}

static CUR_IDX: AtomicU64 = AtomicU64::new(0);
static CUR_START_MS: AtomicU64 = AtomicU64::new(0);
static CUR_LIMIT_MS: AtomicU64 = AtomicU64::new(30_000);
static mut CUR_SUB: [u8; 96] = [0; 96];
static CUR_SUB_LEN: AtomicU64 = AtomicU64::new(0);

fn now_ms() -> u64 {
    let mut ts = libc::timespec { tv_sec: 0, tv_nsec: 0 };
    unsafe { libc::clock_gettime(libc::CLOCK_MONOTONIC, &mut ts) };
    (ts.tv_sec as u64) * 1000 + (ts.tv_nsec as u64) / 1_000_000
}

impl Run {
    pub fn new(tier: Tier, k: u64, n: u64, only: Option<(String, u64)>) -> Run {
        let verbose = only.is_some();
        Run {
            tier,
            k,
            n,
            only,
            verbose,
            sub: String::new(),
            idx: 0,
            rep: Report::default(),
            sample_seen: BTreeMap::new(),
        }
    }
    pub fn quick(&self) -> bool {
        self.tier == Tier::Quick
    }
    pub fn pick<T>(&self, q: T, t: T) -> T {
        if self.quick() {
            q
        } else {
            t
        }
    }
    /// Start enumerating a named sub-space.
    pub fn sub(&mut self, name: &str) {
        self.flush_sub();
        self.sub = name.to_string();
        self.idx = 0;
        let b = name.as_bytes();
        let l = b.len().min(96);
        unsafe {
            let p = std::ptr::addr_of_mut!(CUR_SUB) as *mut u8;
            std::ptr::copy_nonoverlapping(b.as_ptr(), p, l);
        }
        CUR_SUB_LEN.store(l as u64, Ordering::SeqCst);
    }
    fn flush_sub(&mut self) {
        if !self.sub.is_empty() {
            *self.rep.subs.entry(self.sub.clone()).or_insert(0) += self.idx;
        }
    }
    /// Per-case wall-clock limit enforced by the watchdog (ms).
    pub fn set_case_limit_ms(&self, ms: u64) {
        CUR_LIMIT_MS.store(ms, Ordering::SeqCst);
    }
    /// Advance to the next case of the current sub-space. True iff this
    /// worker (shard or replay filter) executes it.
    #[inline]
    pub fn take(&mut self) -> bool {
        let i = self.idx;
        self.idx += 1;
        let mine = match &self.only {
            Some((s, j)) => *j == i && *s == self.sub,
            None => i % self.n == self.k,
        };
        if mine {
            CUR_IDX.store(i, Ordering::Relaxed);
            CUR_START_MS.store(now_ms(), Ordering::Relaxed);
            self.rep.states += 1;
        }
        mine
    }
    /// Skip `count` cases without looking at them (used to jump over blocks).
    pub fn skip(&mut self, count: u64) {
        self.idx += count;
    }
    pub fn cur_idx(&self) -> u64 {
        self.idx - 1
    }
    pub fn cur_sub(&self) -> &str {
        &self.sub
    }
    #[inline]
    pub fn trans(&mut self, n: u64) {
        self.rep.transitions += n;
    }
    #[inline]
    pub fn validated(&mut self) {
        self.rep.validated += 1;
    }
    #[inline]
    pub fn nontrivial(&mut self) {
        self.rep.nontrivial += 1;
    }
    /// Record the outcome class of the current case; the first few cases of every
    /// class are kept as written-out samples.
    pub fn class(&mut self, class: &str, case: impl FnOnce() -> J) {
        let e = self.rep.hist.entry(class.to_string());
        *e.or_insert(0) += 1;
        let key = format!("{}|{}", self.sub, class);
        let seen = self.sample_seen.entry(key).or_insert(0);
        if *seen < 1 && self.rep.samples.len() < 60 {
            *seen += 1;
            let mut c = case();
            if let J::Object(m) = &mut c {
                m.insert("sub".into(), json!(self.sub));
                m.insert("idx".into(), json!(self.idx - 1));
                m.insert("class".into(), json!(class));
            }
            self.rep.samples.push(c);
        }
        if self.verbose {
            println!("REPLAY sub={} idx={} class={}", self.sub, self.idx - 1, class);
        }
    }
    /// Record a violation of the property by the current case.
    pub fn fail(&mut self, key: &str, detail: String, case: J) {
        let c = self.rep.fail_counts.entry(key.to_string()).or_insert(0);
        *c += 1;
        if *c <= 3 && self.rep.failures.len() < 400 {
            let mut case = case;
            if let J::Object(m) = &mut case {
                m.insert("sub".into(), json!(self.sub));
                m.insert("idx".into(), json!(self.idx - 1));
            }
            self.rep
                .failures
                .push(json!({"key": key, "detail": detail, "case": case}));
        }
        if self.verbose {
            println!("REPLAY-FAIL key={} detail={}", key, detail);
        }
    }
    pub fn note(&mut self, s: String) {
        if self.rep.notes.len() < 50 {
            self.rep.notes.push(s);
        }
    }
    pub fn extra_add(&mut self, key: &str, n: u64) {
        let e = self.rep.extra.entry(key.to_string()).or_insert(json!(0));
        *e = json!(e.as_u64().unwrap_or(0) + n);
    }
    pub fn finish(mut self) -> Report {
        self.flush_sub();
        self.rep
    }
}

impl Report {
    pub fn to_json(&self) -> J {
        json!({
            "states": self.states,
            "transitions": self.transitions,
            "validated": self.validated,
            "nontrivial": self.nontrivial,
            "hist": self.hist,
            "samples": self.samples,
            "failures": self.failures,
            "fail_counts": self.fail_counts,
            "subs": self.subs,
            "extra": self.extra,
            "notes": self.notes,
        })
    }
}

// ---------------------------------------------------------------------------
// panic capture

thread_local! {
    static LAST_PANIC: std::cell::RefCell<String> = const { std::cell::RefCell::new(String::new()) };
}

pub fn install_silent_panic_hook() {
    std::panic::set_hook(Box::new(|info| {
        let loc = info
            .location()
            .map(|l| format!("{}:{}", l.file(), l.line()))
            .unwrap_or_default();
        let msg = if let Some(s) = info.payload().downcast_ref::<&str>() {
            s.to_string()
        } else if let Some(s) = info.payload().downcast_ref::<String>() {
            s.clone()
        } else {
            "<non-string panic>".to_string()
        };
        let mut m: String = msg.chars().take(160).collect();
        m.push_str(" @ ");
        m.push_str(&loc);
        if std::env::var("MC_DEBUG").map(|v| !v.is_empty()).unwrap_or(false) {
            eprintln!("panic: {}", m);
        }
        LAST_PANIC.with(|c| *c.borrow_mut() = m);
    }));
}

/// Runs `f`, turning an unwind into `Err(description)`.
pub fn guard<T>(f: impl FnOnce() -> T) -> Result<T, String> {
    match catch_unwind(AssertUnwindSafe(f)) {
        Ok(v) => Ok(v),
        Err(_) => Err(LAST_PANIC.with(|c| c.borrow().clone())),
    }
}

/// Short location-only tag of a panic description (stable across messages).
pub fn panic_site(desc: &str) -> String {
    match desc.rfind(" @ ") {
        Some(i) => {
            let loc = &desc[i + 3..];
            // strip absolute prefix and line number: keep file name only, so that
            // unrelated edits moving lines do not change keys
            let file = loc.rsplit('/').next().unwrap_or(loc);
            let file = file.split(':').next().unwrap_or(file);
            file.to_string()
        }
        None => "unknown".to_string(),
    }
}

/// Stable tag of a panic message: its text up to the first digit / parenthesis / quote.
pub fn panic_kind(desc: &str) -> String {
    let msg = match desc.rfind(" @ ") {
        Some(i) => &desc[..i],
        None => desc,
    };
    let cut = msg.find(|c: char| c.is_ascii_digit() || c == '(' || c == '\'' || c == '"' || c == '`').unwrap_or(msg.len());
    let t: String = msg[..cut].trim().chars().take(48).collect();
    t.replace(' ', "-")
}

// ---------------------------------------------------------------------------
// resolve-step budget (uses the verif-hooks observer)

pub struct BudgetExceeded;

/// Runs `f` with a budget of `limit` resolve entries on this thread. Returns the
/// closure's result (or Err on unwind) and the number of steps taken. Exceeding
/// the budget unwinds out of the evaluation.
pub fn with_budget<T>(limit: u64, f: impl FnOnce() -> T) -> (Result<T, String>, u64, bool) {
    use cel_interpreter::verif::{set_observer, Event};
    use std::cell::Cell;
    use std::rc::Rc;
    let steps = Rc::new(Cell::new(0u64));
    let over = Rc::new(Cell::new(false));
    let (s2, o2) = (steps.clone(), over.clone());
    let prev = set_observer(Some(Box::new(move |e| {
        if let Event::Enter(_) = e {
            let n = s2.get() + 1;
            s2.set(n);
            if n > limit {
                o2.set(true);
                std::panic::panic_any(BudgetExceeded);
            }
        }
    })));
    let r = catch_unwind(AssertUnwindSafe(f));
    set_observer(prev);
    let r = match r {
        Ok(v) => Ok(v),
        Err(p) => {
            if p.downcast_ref::<BudgetExceeded>().is_some() {
                Err("step budget exceeded".to_string())
            } else {
                Err(LAST_PANIC.with(|c| c.borrow().clone()))
            }
        }
    };
    (r, steps.get(), over.get())
}

// ---------------------------------------------------------------------------
// crash / hang attribution

fn write_fd(fd: i32, b: &[u8]) {
    unsafe {
        libc::write(fd, b.as_ptr() as *const libc::c_void, b.len());
    }
}

fn emit_abnormal(kind: &[u8]) {
    // async-signal-safe: fixed buffers, manual formatting
    let mut buf = [0u8; 256];
    let mut w = 0usize;
    let mut put = |s: &[u8], w: &mut usize| {
        for &c in s {
            if *w < 250 {
                buf[*w] = c;
                *w += 1;
            }
        }
    };
    put(b"\n{\"abnormal\":\"", &mut w);
    put(kind, &mut w);
    put(b"\",\"sub\":\"", &mut w);
    let l = CUR_SUB_LEN.load(Ordering::SeqCst) as usize;
    let sub = unsafe { std::slice::from_raw_parts(std::ptr::addr_of!(CUR_SUB) as *const u8, l) };
    for &c in sub {
        if c != b'"' && c != b'\\' && c >= 0x20 && c < 0x7f {
            put(&[c], &mut w);
        }
    }
    put(b"\",\"idx\":", &mut w);
    let mut n = CUR_IDX.load(Ordering::Relaxed);
    let mut digits = [0u8; 20];
    let mut d = 0;
    if n == 0 {
        digits[0] = b'0';
        d = 1;
    }
    while n > 0 {
        digits[d] = b'0' + (n % 10) as u8;
        n /= 10;
        d += 1;
    }
    for i in (0..d).rev() {
        put(&[digits[i]], &mut w);
    }
    put(b"}\n", &mut w);
    write_fd(1, &buf[..w]);
}

extern "C" fn on_fatal_signal(_sig: i32) {
    emit_abnormal(b"crash");
    unsafe { libc::_exit(70) };
}

pub fn install_crash_handlers(mem_limit_bytes: u64) {
    unsafe {
        // dedicated alternate stack for the main thread (std installs one too, but be explicit)
        let sz = 1 << 16;
        let stack = libc::mmap(
            std::ptr::null_mut(),
            sz,
            libc::PROT_READ | libc::PROT_WRITE,
            libc::MAP_PRIVATE | libc::MAP_ANONYMOUS,
            -1,
            0,
        );
        let ss = libc::stack_t { ss_sp: stack, ss_flags: 0, ss_size: sz };
        libc::sigaltstack(&ss, std::ptr::null_mut());
        for sig in [libc::SIGSEGV, libc::SIGBUS, libc::SIGABRT, libc::SIGILL] {
            let mut sa: libc::sigaction = std::mem::zeroed();
            sa.sa_sigaction = on_fatal_signal as usize;
            sa.sa_flags = libc::SA_ONSTACK;
            libc::sigemptyset(&mut sa.sa_mask);
            libc::sigaction(sig, &sa, std::ptr::null_mut());
        }
        if mem_limit_bytes > 0 {
            let rl = libc::rlimit { rlim_cur: mem_limit_bytes, rlim_max: mem_limit_bytes };
            libc::setrlimit(libc::RLIMIT_AS, &rl);
        }
    }
    CUR_START_MS.store(now_ms(), Ordering::Relaxed);
    std::thread::spawn(|| loop {
        std::thread::sleep(std::time::Duration::from_millis(100));
        let start = CUR_START_MS.load(Ordering::Relaxed);
        let lim = CUR_LIMIT_MS.load(Ordering::SeqCst);
        if start != 0 && now_ms().saturating_sub(start) > lim {
            emit_abnormal(b"hang");
            unsafe { libc::_exit(71) };
        }
    });
}

/// Called between cases that do long non-case work (building tables) so the
/// watchdog does not fire.
pub fn heartbeat() {
    CUR_START_MS.store(now_ms(), Ordering::Relaxed);
}

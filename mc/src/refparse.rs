//! Reference lexer (maximal munch, from the lexer rules of CEL.g4) and a recursive-descent
//! acceptor (from its parser rules). Three-valued: only `Reject` carries a verdict.
#[derive(Clone, Copy, Debug, PartialEq, Eq)]
pub enum Verdict {
    Accept,
    Reject,
    Unsure,
}

#[derive(Clone, Copy, Debug, PartialEq, Eq)]
pub enum T {
    EqEq,
    Ne,
    In,
    Lt,
    Le,
    Ge,
    Gt,
    AndAnd,
    OrOr,
    LBracket,
    RBracket,
    LBrace,
    RBrace,
    LParen,
    RParen,
    Dot,
    Comma,
    Minus,
    Bang,
    Question,
    Colon,
    Plus,
    Star,
    Slash,
    Percent,
    True,
    False,
    Null,
    Float,
    Int,
    Uint,
    Str,
    Bytes,
    Ident,
    EscIdent,
}

pub enum LexResult {
    Tokens(Vec<T>),
    /// a character sequence no lexer rule matches
    Error,
    /// a region the reference lexer is not certain about
    Unsure,
}

fn is_letter(c: char) -> bool {
    c.is_ascii_alphabetic()
}
fn is_hex(c: char) -> bool {
    c.is_ascii_hexdigit()
}

/// length (in chars) of an ESC_SEQ starting at s[0] == '\\', or None
fn esc_len(s: &[char]) -> Option<usize> {
    if s.len() < 2 || s[0] != '\\' {
        return None;
    }
    match s[1] {
        'a' | 'b' | 'f' | 'n' | 'r' | 't' | 'v' | '"' | '\'' | '\\' | '?' | '`' => Some(2),
        '0'..='3' => {
            if s.len() >= 4 && ('0'..='7').contains(&s[2]) && ('0'..='7').contains(&s[3]) {
                Some(4)
            } else {
                None
            }
        }
        'x' | 'X' => {
            if s.len() >= 4 && is_hex(s[2]) && is_hex(s[3]) {
                Some(4)
            } else {
                None
            }
        }
        'u' => {
            if s.len() >= 6 && s[2..6].iter().all(|c| is_hex(*c)) {
                Some(6)
            } else {
                None
            }
        }
        'U' => {
            if s.len() >= 10 && s[2..10].iter().all(|c| is_hex(*c)) {
                Some(10)
            } else {
                None
            }
        }
        _ => None,
    }
}

/// Longest STRING token at the start of `s` (not raw, no prefix): returns length.
/// `unsure` is set when the match depends on non-greedy triple-quote subtleties.
fn string_len(s: &[char], raw: bool, unsure: &mut bool) -> Option<usize> {
    if s.is_empty() {
        return None;
    }
    let q = s[0];
    if q != '"' && q != '\'' {
        return None;
    }
    let mut best: Option<usize> = None;
    // single-quoted form
    {
        let mut i = 1;
        loop {
            if i >= s.len() {
                break;
            }
            let c = s[i];
            if c == q {
                best = Some(i + 1);
                break;
            }
            if c == '\n' || c == '\r' {
                break;
            }
            if c == '\\' && !raw {
                match esc_len(&s[i..]) {
                    Some(l) => i += l,
                    None => break,
                }
                continue;
            }
            i += 1;
        }
    }
    // triple-quoted form (non-greedy: first closing triple)
    if s.len() >= 6 && s[1] == q && s[2] == q {
        let mut i = 3;
        while i < s.len() {
            if i + 3 <= s.len() && s[i] == q && s[i + 1] == q && s[i + 2] == q {
                let end = i + 3;
                // a further quote right after the closing triple: which quotes close is a
                // non-greedy subtlety of the generated lexer we do not model
                if end < s.len() && s[end] == q {
                    *unsure = true;
                }
                if best.map(|b| end > b).unwrap_or(true) {
                    best = Some(end);
                }
                break;
            }
            let c = s[i];
            if c == '\\' && !raw {
                match esc_len(&s[i..]) {
                    Some(l) => i += l,
                    None => break,
                }
                continue;
            }
            i += 1;
        }
        // any input with a triple-quote opener is delicate when it does not close
        if best.map(|b| b <= 2).unwrap_or(true) {
            *unsure = true;
        }
    }
    best
}

fn digits(s: &[char], mut i: usize) -> usize {
    while i < s.len() && s[i].is_ascii_digit() {
        i += 1;
    }
    i
}

fn exponent(s: &[char], i: usize) -> Option<usize> {
    if i < s.len() && (s[i] == 'e' || s[i] == 'E') {
        let mut j = i + 1;
        if j < s.len() && (s[j] == '+' || s[j] == '-') {
            j += 1;
        }
        let k = digits(s, j);
        if k > j {
            return Some(k);
        }
    }
    None
}

pub fn lex(src: &str) -> LexResult {
    let s: Vec<char> = src.chars().collect();
    let mut i = 0;
    let mut out = vec![];
    let mut unsure = false;
    while i < s.len() {
        let c = s[i];
        // whitespace / comments (hidden channel)
        if c == ' ' || c == '\t' || c == '\r' || c == '\n' || c == '\u{c}' {
            i += 1;
            continue;
        }
        if c == '/' && i + 1 < s.len() && s[i + 1] == '/' {
            while i < s.len() && s[i] != '\n' {
                i += 1;
            }
            continue;
        }
        // candidates: (length, token); longest wins, earlier rule wins ties
        let mut cands: Vec<(usize, T)> = vec![];
        let two = if i + 1 < s.len() { Some(s[i + 1]) } else { None };
        match (c, two) {
            ('=', Some('=')) => cands.push((2, T::EqEq)),
            ('!', Some('=')) => cands.push((2, T::Ne)),
            ('<', Some('=')) => cands.push((2, T::Le)),
            ('>', Some('=')) => cands.push((2, T::Ge)),
            ('&', Some('&')) => cands.push((2, T::AndAnd)),
            ('|', Some('|')) => cands.push((2, T::OrOr)),
            _ => {}
        }
        match c {
            '<' => cands.push((1, T::Lt)),
            '>' => cands.push((1, T::Gt)),
            '[' => cands.push((1, T::LBracket)),
            ']' => cands.push((1, T::RBracket)),
            '{' => cands.push((1, T::LBrace)),
            '}' => cands.push((1, T::RBrace)),
            '(' => cands.push((1, T::LParen)),
            ')' => cands.push((1, T::RParen)),
            '.' => cands.push((1, T::Dot)),
            ',' => cands.push((1, T::Comma)),
            '-' => cands.push((1, T::Minus)),
            '!' => cands.push((1, T::Bang)),
            '?' => cands.push((1, T::Question)),
            ':' => cands.push((1, T::Colon)),
            '+' => cands.push((1, T::Plus)),
            '*' => cands.push((1, T::Star)),
            '/' => cands.push((1, T::Slash)),
            '%' => cands.push((1, T::Percent)),
            _ => {}
        }
        // numbers
        if c.is_ascii_digit() {
            let d = digits(&s, i);
            // NUM_FLOAT: DIGIT+ '.' DIGIT+ EXPONENT? | DIGIT+ EXPONENT
            if d < s.len() && s[d] == '.' {
                let f = digits(&s, d + 1);
                if f > d + 1 {
                    let e = exponent(&s, f).unwrap_or(f);
                    cands.push((e - i, T::Float));
                }
            }
            if let Some(e) = exponent(&s, d) {
                cands.push((e - i, T::Float));
            }
            cands.push((d - i, T::Int));
            if d < s.len() && (s[d] == 'u' || s[d] == 'U') {
                cands.push((d + 1 - i, T::Uint));
            }
            if c == '0' && i + 1 < s.len() && s[i + 1] == 'x' {
                let mut h = i + 2;
                while h < s.len() && is_hex(s[h]) {
                    h += 1;
                }
                if h > i + 2 {
                    cands.push((h - i, T::Int));
                    if h < s.len() && (s[h] == 'u' || s[h] == 'U') {
                        cands.push((h + 1 - i, T::Uint));
                    }
                }
            }
        }
        if c == '.' && i + 1 < s.len() && s[i + 1].is_ascii_digit() {
            let f = digits(&s, i + 1);
            let e = exponent(&s, f).unwrap_or(f);
            cands.push((e - i, T::Float));
        }
        // strings, raw strings, bytes
        if c == '"' || c == '\'' {
            if let Some(l) = string_len(&s[i..], false, &mut unsure) {
                cands.push((l, T::Str));
            }
        }
        if (c == 'r' || c == 'R') && i + 1 < s.len() {
            if let Some(l) = string_len(&s[i + 1..], true, &mut unsure) {
                cands.push((l + 1, T::Str));
            }
        }
        if (c == 'b' || c == 'B') && i + 1 < s.len() {
            let n = s[i + 1];
            if n == '"' || n == '\'' {
                if let Some(l) = string_len(&s[i + 1..], false, &mut unsure) {
                    cands.push((l + 1, T::Bytes));
                }
            } else if (n == 'r' || n == 'R') && i + 2 < s.len() {
                if let Some(l) = string_len(&s[i + 2..], true, &mut unsure) {
                    cands.push((l + 2, T::Bytes));
                }
            }
        }
        // identifiers and keywords
        if is_letter(c) || c == '_' {
            let mut j = i + 1;
            while j < s.len() && (is_letter(s[j]) || s[j].is_ascii_digit() || s[j] == '_') {
                j += 1;
            }
            let word: String = s[i..j].iter().collect();
            let t = match word.as_str() {
                "in" => T::In,
                "true" => T::True,
                "false" => T::False,
                "null" => T::Null,
                _ => T::Ident,
            };
            cands.push((j - i, t));
        }
        if c == '`' {
            let mut j = i + 1;
            while j < s.len() && (is_letter(s[j]) || s[j].is_ascii_digit() || matches!(s[j], '_' | '.' | '-' | '/' | ' ')) {
                j += 1;
            }
            if j > i + 1 && j < s.len() && s[j] == '`' {
                cands.push((j + 1 - i, T::EscIdent));
            }
        }
        if cands.is_empty() {
            return if unsure { LexResult::Unsure } else { LexResult::Error };
        }
        // longest match; on ties the candidate pushed for the earlier lexer rule. Keywords vs
        // IDENTIFIER are already resolved above; STRING vs IDENTIFIER (`r`, `b` prefixes) differ in length.
        let mut best = cands[0];
        for cnd in &cands[1..] {
            if cnd.0 > best.0 {
                best = *cnd;
            }
        }
        out.push(best.1);
        i += best.0;
    }
    if unsure {
        LexResult::Unsure
    } else {
        LexResult::Tokens(out)
    }
}

struct P<'a> {
    t: &'a [T],
    i: usize,
}

impl<'a> P<'a> {
    fn peek(&self) -> Option<T> {
        self.t.get(self.i).copied()
    }
    fn peek2(&self) -> Option<T> {
        self.t.get(self.i + 1).copied()
    }
    fn eat(&mut self, t: T) -> bool {
        if self.peek() == Some(t) {
            self.i += 1;
            true
        } else {
            false
        }
    }
    fn expr(&mut self) -> bool {
        if !self.cond_or() {
            return false;
        }
        if self.eat(T::Question) {
            if !self.cond_or() {
                return false;
            }
            if !self.eat(T::Colon) {
                return false;
            }
            return self.expr();
        }
        true
    }
    fn cond_or(&mut self) -> bool {
        if !self.cond_and() {
            return false;
        }
        while self.eat(T::OrOr) {
            if !self.cond_and() {
                return false;
            }
        }
        true
    }
    fn cond_and(&mut self) -> bool {
        if !self.relation() {
            return false;
        }
        while self.eat(T::AndAnd) {
            if !self.relation() {
                return false;
            }
        }
        true
    }
    fn relation(&mut self) -> bool {
        if !self.calc() {
            return false;
        }
        while matches!(self.peek(), Some(T::Lt | T::Le | T::Ge | T::Gt | T::EqEq | T::Ne | T::In)) {
            self.i += 1;
            if !self.calc() {
                return false;
            }
        }
        true
    }
    fn calc(&mut self) -> bool {
        if !self.unary() {
            return false;
        }
        while matches!(self.peek(), Some(T::Star | T::Slash | T::Percent | T::Plus | T::Minus)) {
            self.i += 1;
            if !self.unary() {
                return false;
            }
        }
        true
    }
    fn unary(&mut self) -> bool {
        match self.peek() {
            Some(T::Bang) => {
                while self.eat(T::Bang) {}
                self.member()
            }
            Some(T::Minus) => {
                // '-'+ member, where member may itself start with a signed numeric literal
                while self.peek() == Some(T::Minus) && self.peek2() == Some(T::Minus) {
                    self.i += 1;
                }
                // one '-' left: either the last prefix operator or the sign of a literal
                if matches!(self.peek2(), Some(T::Int | T::Float)) {
                    // `-1` is a literal (and `- -1` etc. were consumed above)
                    self.member()
                } else {
                    self.i += 1;
                    self.member()
                }
            }
            _ => self.member(),
        }
    }
    fn member(&mut self) -> bool {
        if !self.primary() {
            return false;
        }
        loop {
            match self.peek() {
                Some(T::Dot) => {
                    self.i += 1;
                    if self.eat(T::Question) {
                        if !(self.eat(T::Ident) || self.eat(T::EscIdent)) {
                            return false;
                        }
                        continue;
                    }
                    if self.eat(T::EscIdent) {
                        continue;
                    }
                    if !self.eat(T::Ident) {
                        return false;
                    }
                    if self.eat(T::LParen) {
                        if !self.eat(T::RParen) {
                            if !self.expr_list() {
                                return false;
                            }
                            if !self.eat(T::RParen) {
                                return false;
                            }
                        }
                    }
                }
                Some(T::LBracket) => {
                    self.i += 1;
                    self.eat(T::Question);
                    if !self.expr() {
                        return false;
                    }
                    if !self.eat(T::RBracket) {
                        return false;
                    }
                }
                _ => return true,
            }
        }
    }
    fn expr_list(&mut self) -> bool {
        if !self.expr() {
            return false;
        }
        while self.eat(T::Comma) {
            if !self.expr() {
                return false;
            }
        }
        true
    }
    fn opt_expr(&mut self) -> bool {
        self.eat(T::Question);
        self.expr()
    }
    fn primary(&mut self) -> bool {
        match self.peek() {
            Some(T::Dot) | Some(T::Ident) => {
                // leadingDot? IDENTIFIER ...
                let save = self.i;
                self.eat(T::Dot);
                if !self.eat(T::Ident) {
                    self.i = save;
                    return false;
                }
                // CreateMessage: ids ('.' ids)* '{'
                let mut j = self.i;
                while self.t.get(j) == Some(&T::Dot) && self.t.get(j + 1) == Some(&T::Ident) {
                    j += 2;
                }
                if self.t.get(j) == Some(&T::LBrace) {
                    self.i = j + 1;
                    // field_initializer_list? ','? '}'
                    if self.eat(T::RBrace) {
                        return true;
                    }
                    if self.peek() != Some(T::Comma) {
                        loop {
                            self.eat(T::Question);
                            if !(self.eat(T::Ident) || self.eat(T::EscIdent)) {
                                return false;
                            }
                            if !self.eat(T::Colon) {
                                return false;
                            }
                            if !self.expr() {
                                return false;
                            }
                            if self.peek() == Some(T::Comma) && !matches!(self.peek2(), Some(T::RBrace)) {
                                self.i += 1;
                                continue;
                            }
                            break;
                        }
                    }
                    self.eat(T::Comma);
                    return self.eat(T::RBrace);
                }
                // GlobalCall
                if self.eat(T::LParen) {
                    if self.eat(T::RParen) {
                        return true;
                    }
                    if !self.expr_list() {
                        return false;
                    }
                    return self.eat(T::RParen);
                }
                true
            }
            Some(T::LParen) => {
                self.i += 1;
                if !self.expr() {
                    return false;
                }
                self.eat(T::RParen)
            }
            Some(T::LBracket) => {
                self.i += 1;
                if self.eat(T::RBracket) {
                    return true;
                }
                if self.peek() != Some(T::Comma) {
                    loop {
                        if !self.opt_expr() {
                            return false;
                        }
                        if self.peek() == Some(T::Comma) && !matches!(self.peek2(), Some(T::RBracket)) {
                            self.i += 1;
                            continue;
                        }
                        break;
                    }
                }
                self.eat(T::Comma);
                self.eat(T::RBracket)
            }
            Some(T::LBrace) => {
                self.i += 1;
                if self.eat(T::RBrace) {
                    return true;
                }
                if self.peek() != Some(T::Comma) {
                    loop {
                        if !self.opt_expr() {
                            return false;
                        }
                        if !self.eat(T::Colon) {
                            return false;
                        }
                        if !self.expr() {
                            return false;
                        }
                        if self.peek() == Some(T::Comma) && !matches!(self.peek2(), Some(T::RBrace)) {
                            self.i += 1;
                            continue;
                        }
                        break;
                    }
                }
                self.eat(T::Comma);
                self.eat(T::RBrace)
            }
            Some(T::Minus) => {
                // signed numeric literal
                if matches!(self.peek2(), Some(T::Int | T::Float)) {
                    self.i += 2;
                    true
                } else {
                    false
                }
            }
            Some(T::Int | T::Uint | T::Float | T::Str | T::Bytes | T::True | T::False | T::Null) => {
                self.i += 1;
                true
            }
            _ => false,
        }
    }
}

/// Is the token sequence one complete CEL expression per the grammar?
pub fn accepts(tokens: &[T]) -> bool {
    let mut p = P { t: tokens, i: 0 };
    p.expr() && p.i == tokens.len()
}

pub fn verdict(src: &str) -> Verdict {
    match lex(src) {
        LexResult::Unsure => Verdict::Unsure,
        LexResult::Error => Verdict::Reject,
        LexResult::Tokens(ts) => {
            // Constructs whose conditional `?` could also be read as the optional marker are
            // resolved by the generated parser's lookahead in ways a simple descent does not
            // reproduce: `[? a]`, `{? a : b}`, `a[? b]`, `a.?b` are handled, but a `?` directly
            // after `[`, `{`, `,` or `.` followed by something that makes the optional reading
            // fail is left undecided.
            let delicate = ts.windows(2).any(|w| matches!(w[0], T::LBracket | T::LBrace | T::Comma | T::Dot) && w[1] == T::Question);
            if accepts(&ts) {
                Verdict::Accept
            } else if delicate {
                Verdict::Unsure
            } else {
                Verdict::Reject
            }
        }
    }
}

//! Reference semantics shared by several checks: exact numeric comparison,
//! structural equality, ordering specification.
use crate::mv::MV;
use crate::nums::cmp_f64_i128;
use std::cmp::Ordering;

#[derive(Clone, Copy, Debug)]
pub enum Num {
    I(i128),
    F(f64),
}

pub fn num(v: &MV) -> Option<Num> {
    match v {
        MV::Int(i) => Some(Num::I(*i as i128)),
        MV::Uint(u) => Some(Num::I(*u as i128)),
        MV::Float(b) => Some(Num::F(f64::from_bits(*b))),
        _ => None,
    }
}

/// Exact comparison of the numbers denoted. None iff a NaN is involved.
pub fn cmp_num(a: Num, b: Num) -> Option<Ordering> {
    match (a, b) {
        (Num::I(x), Num::I(y)) => Some(x.cmp(&y)),
        (Num::F(x), Num::F(y)) => x.partial_cmp(&y),
        (Num::F(x), Num::I(y)) => cmp_f64_i128(x, y),
        (Num::I(x), Num::F(y)) => cmp_f64_i128(y, x).map(|o| o.reverse()),
    }
}

/// Equality as the statement of C09 defines it.
pub fn model_eq(a: &MV, b: &MV) -> bool {
    if let (Some(x), Some(y)) = (num(a), num(b)) {
        return cmp_num(x, y) == Some(Ordering::Equal);
    }
    match (a, b) {
        (MV::List(x), MV::List(y)) => x.len() == y.len() && x.iter().zip(y.iter()).all(|(p, q)| model_eq(p, q)),
        (MV::Map(x), MV::Map(y)) => {
            x.len() == y.len() && x.iter().zip(y.iter()).all(|((k1, v1), (k2, v2))| k1 == k2 && model_eq(v1, v2))
        }
        (MV::Timestamp(s1, n1, _), MV::Timestamp(s2, n2, _)) => s1 == s2 && n1 == n2,
        (MV::Function(..), _) | (_, MV::Function(..)) => a == b,
        _ => a == b,
    }
}

#[derive(Clone, Copy, Debug, PartialEq)]
pub enum OrdSpec {
    Must(Ordering),
    MustErr,
    /// same non-numeric, non-string kind: the statement only demands the laws
    Unspecified,
}

pub fn model_ord(a: &MV, b: &MV) -> OrdSpec {
    if let (Some(x), Some(y)) = (num(a), num(b)) {
        return match cmp_num(x, y) {
            Some(o) => OrdSpec::Must(o),
            None => OrdSpec::MustErr,
        };
    }
    match (a, b) {
        (MV::Str(x), MV::Str(y)) => OrdSpec::Must(x.as_str().cmp(y.as_str())), // UTF-8 byte order == code point order
        _ if a.kind() == b.kind() => OrdSpec::Unspecified,
        _ => OrdSpec::MustErr,
    }
}

/// Does a map contain two keys that are int/uint twins of each other (left undecided by the statements)?
pub fn has_twin_keys(v: &MV) -> bool {
    match v {
        MV::Map(es) => {
            for (i, (k1, x)) in es.iter().enumerate() {
                if has_twin_keys(x) {
                    return true;
                }
                for (k2, _) in es.iter().skip(i + 1) {
                    if k1 != k2 && k1.num().is_some() && k1.num() == k2.num() {
                        return true;
                    }
                }
            }
            false
        }
        MV::List(l) => l.iter().any(has_twin_keys),
        _ => false,
    }
}

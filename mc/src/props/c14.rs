//! C14 — list, map and string operations agree with one another.
use crate::core::Run;
use crate::hosts;
use crate::mv::{Out, MK, MV};
use crate::props::c03::{compare, exp_tag};
use crate::reval::{b, call, eval, mcall, Env, E};
use crate::subj;
use serde_json::json;

fn keys12() -> Vec<MK> {
    vec![
        MK::Int(0),
        MK::Int(1),
        MK::Int(-1),
        MK::Int(i64::MAX),
        MK::Uint(0),
        MK::Uint(1),
        MK::Uint(1 << 63),
        MK::Bool(true),
        MK::Bool(false),
        MK::Str("a".into()),
        MK::Str("b".into()),
        MK::Str("k1".into()),
        // a key spelled like a registered function: a present entry wins over the method
        MK::Str("size".into()),
    ]
}

fn judge(run: &mut Run, family: &str, form: &str, e: &E, env: &mut Env, ctx: &cel_interpreter::Context, presence: Option<bool>) {
    let src = e.src();
    env.log.clear();
    let exp = eval(e, env);
    let got = subj::run_src(&src, ctx);
    run.trans(2);
    let case = || json!({"src": src, "expected": format!("{:?}", exp), "got": got.show()});
    run.class(&format!("{}:{}:{}:{}", family, form, exp_tag(&exp), got.tag()), case);
    match compare(&exp, &got) {
        None => {
            if let Out::Panic(p) = &got {
                run.fail(&format!("C14|{}|{}|panic", family, form), format!("`{}` panicked: {}", src, p), case());
            }
        }
        Some(ok) => {
            run.validated();
            if presence.is_some() {
                run.nontrivial();
            }
            if !ok {
                let pres = match presence {
                    Some(true) => "present",
                    Some(false) => "absent",
                    None => "-",
                };
                run.fail(
                    &format!("C14|{}|{}|{}|expect={}|got={}", family, form, pres, exp_tag(&exp), got.tag()),
                    format!("`{}` : model says {:?}, implementation gave {}", src, exp, got.show()),
                    case(),
                );
            }
        }
    }
}

/// the value stored under the p-th selected key: falsy values of every kind next to truthy ones
/// (presence of a key does not depend on what it holds)
fn entry_value(p: usize) -> MV {
    match p % 8 {
        0 => MV::Int(0),
        1 => MV::Int(11),
        2 => MV::s(""),
        3 => MV::Bool(false),
        4 => MV::List(vec![]),
        5 => MV::Map(vec![]),
        6 => MV::f(0.0),
        _ => MV::Uint(0),
    }
}

pub fn run(run: &mut Run) {
    let ks = keys12();
    let mut queries: Vec<MK> = ks.clone();
    queries.push(MK::Uint(i64::MAX as u64));
    queries.push(MK::Str("zz".into()));
    let mut env = Env::new();
    let log = hosts::new_log();

    // ---- every map with <= 4 keys, distinct modulo the twin rule
    let maxk = run.pick(4usize, 6usize);
    let n = ks.len();
    run.sub("maps");
    for mask in 0u32..(1 << n) {
        if (mask.count_ones() as usize) > maxk {
            continue;
        }
        let sel: Vec<usize> = (0..n).filter(|i| mask & (1 << i) != 0).collect();
        // twin pairs may not both be present
        let twin_clash = sel.iter().any(|&i| sel.iter().any(|&j| i != j && ks[i].num().is_some() && ks[i].num() == ks[j].num()));
        if twin_clash {
            continue;
        }
        let entries: Vec<(MK, MV)> = sel.iter().enumerate().map(|(p, &i)| (ks[i].clone(), entry_value(p))).collect();
        let mut sorted = entries.clone();
        sorted.sort();
        let mval = MV::Map(sorted);
        let lit = E::Map(entries.iter().map(|(k, v)| (E::Lit(k.to_mv()), E::Lit(v.clone()))).collect());
        env.frames.truncate(1);
        env.set("m", mval.clone());
        let ctx = hosts::context_for(&env, &log);
        for (fi, m_expr) in [lit.clone(), E::Var("m".into())].iter().enumerate() {
            let fam = if fi == 0 { "map-lit" } else { "map-var" };
            // the literal contains exactly the entries written
            if run.take() {
                let e = E::Bin("==", b(call("size", vec![m_expr.clone()])), b(E::Lit(MV::Int(entries.len() as i64))));
                judge(run, fam, "size", &e, &mut env, &ctx, None);
            }
            for q in queries.iter() {
                let present = entries.iter().any(|(k, _)| k == q || (k.num().is_some() && k.num() == q.num()));
                let ql = E::Lit(q.to_mv());
                let mut forms: Vec<(&str, E)> = vec![
                    ("in", E::Bin("in", b(ql.clone()), b(m_expr.clone()))),
                    ("contains", mcall(m_expr.clone(), "contains", vec![ql.clone()])),
                    ("index", E::Index(b(m_expr.clone()), b(ql.clone()))),
                    ("index!=null", E::Bin("!=", b(E::Index(b(m_expr.clone()), b(ql.clone()))), b(E::Lit(MV::Null)))),
                ];
                if let MK::Str(s) = q {
                    forms.push(("select", E::Select(b(m_expr.clone()), s.clone())));
                    forms.push(("has", E::Has(b(m_expr.clone()), s.clone())));
                }
                for (fname, e) in forms.iter() {
                    if !run.take() {
                        continue;
                    }
                    judge(run, fam, fname, e, &mut env, &ctx, Some(present));
                }
                // the key supplied as a context variable instead of a literal
                if fi == 1 {
                    env.set("q", q.to_mv());
                    let ctx2 = hosts::context_for(&env, &log);
                    let qv = E::Var("q".into());
                    for (fname, e) in [
                        ("in-var", E::Bin("in", b(qv.clone()), b(m_expr.clone()))),
                        ("contains-var", mcall(m_expr.clone(), "contains", vec![qv.clone()])),
                        ("index-var", E::Index(b(m_expr.clone()), b(qv.clone()))),
                    ] {
                        if !run.take() {
                            continue;
                        }
                        judge(run, fam, fname, &e, &mut env, &ctx2, Some(present));
                    }
                }
            }
        }
    }

    // ---- every list of length <= 5 over 3 values x every index, and membership
    run.sub("lists");
    let vals = [MV::Int(1), MV::Int(2), MV::s("a")];
    let probes = [MV::Int(1), MV::Int(2), MV::s("a"), MV::f(1.0), MV::Uint(1), MV::Int(3), MV::Null, MV::f(2.5), MV::s("")];
    let mut lists: Vec<Vec<MV>> = vec![vec![]];
    {
        let mut last: Vec<Vec<MV>> = vec![vec![]];
        for _ in 0..run.pick(5, 7) {
            let mut next = vec![];
            for l in &last {
                for v in vals.iter() {
                    let mut nl = l.clone();
                    nl.push(v.clone());
                    next.push(nl);
                }
            }
            lists.extend(next.iter().cloned());
            last = next;
        }
    }
    for l in lists.iter() {
        let lv = MV::List(l.clone());
        env.frames.truncate(1);
        env.set("l", lv.clone());
        let ctx = hosts::context_for(&env, &log);
        let mut idxs: Vec<i64> = (-2..=(l.len() as i64 + 1)).collect();
        idxs.push(i64::MIN);
        idxs.push(i64::MAX);
        idxs.push(i64::MAX / 2);
        idxs.push(1 << 32);
        for (fi, l_expr) in [E::Lit(lv.clone()), E::Var("l".into())].iter().enumerate() {
            let fam = if fi == 0 { "list-lit" } else { "list-var" };
            for i in idxs.iter() {
                if !run.take() {
                    continue;
                }
                let e = E::Index(b(l_expr.clone()), b(E::Lit(MV::Int(*i))));
                let in_range = *i >= 0 && (*i as u64) < l.len() as u64;
                judge(run, fam, if in_range { "index-in-range" } else { "index-out-of-range" }, &e, &mut env, &ctx, Some(in_range));
            }
            for p in probes.iter() {
                if !run.take() {
                    continue;
                }
                let e = E::Bin("in", b(E::Lit(p.clone())), b(l_expr.clone()));
                judge(run, fam, "in", &e, &mut env, &ctx, None);
                if !run.take() {
                    continue;
                }
                let e2 = mcall(l_expr.clone(), "contains", vec![E::Lit(p.clone())]);
                judge(run, fam, "contains", &e2, &mut env, &ctx, None);
            }
            if run.take() {
                let e = E::Bin("==", b(call("size", vec![l_expr.clone()])), b(E::Lit(MV::Int(l.len() as i64))));
                judge(run, fam, "size", &e, &mut env, &ctx, None);
            }
        }
    }

    // ---- a value compared with / looked up in a collection holding that very value (one variable
    //      read twice): the answer is decided by equality of the contents, not by identity
    run.sub("aliasing");
    {
        let nan = MV::f(f64::NAN);
        let xs: Vec<MV> = vec![
            MV::List(vec![nan.clone()]),
            MV::List(vec![MV::Int(1)]),
            MV::Map(vec![(MK::Str("a".into()), nan.clone())]),
            MV::Map(vec![(MK::Str("a".into()), MV::Int(1))]),
            nan.clone(),
            MV::s("a"),
            MV::List(vec![MV::List(vec![nan.clone()])]),
            MV::List(vec![]),
            MV::Bytes(vec![1]),
            MV::Null,
        ];
        let xv = || E::Var("x".into());
        for x in xs.iter() {
            env.frames.truncate(1);
            env.set("x", x.clone());
            let ctx = hosts::context_for(&env, &log);
            for (fname, e) in [
                ("x-in-[x]", E::Bin("in", b(xv()), b(E::List(vec![xv()])))),
                ("x-in-[1,x]", E::Bin("in", b(xv()), b(E::List(vec![E::Lit(MV::Int(1)), xv()])))),
                ("[x].contains(x)", mcall(E::List(vec![xv()]), "contains", vec![xv()])),
                ("[[x]].contains([x])", mcall(E::List(vec![E::List(vec![xv()])]), "contains", vec![E::List(vec![xv()])])),
                ("x==x", E::Bin("==", b(xv()), b(xv()))),
                ("[x]==[x]", E::Bin("==", b(E::List(vec![xv()])), b(E::List(vec![xv()])))),
                ("{k:x}==…", E::Bin("==", b(E::Map(vec![(E::Lit(MV::s("k")), xv())])), b(E::Map(vec![(E::Lit(MV::s("k")), xv())])))),
                ("[x].exists(y,y==x)", E::Macro("exists", b(E::List(vec![xv()])), "y".into(), vec![E::Bin("==", b(E::Var("y".into())), b(xv()))])),
                ("[x].map(y,y in [x])", E::Macro("map", b(E::List(vec![xv()])), "y".into(), vec![E::Bin("in", b(E::Var("y".into())), b(E::List(vec![xv()])))])),
            ] {
                if !run.take() {
                    continue;
                }
                judge(run, "aliasing", fname, &e, &mut env, &ctx, None);
                run.nontrivial();
            }
        }
    }

    // ---- concatenation: additive size, order, operands intact
    run.sub("concat");
    let short: Vec<MV> = lists.iter().filter(|l| l.len() <= 3).map(|l| MV::List(l.clone())).collect();
    let strs: Vec<MV> = ["", "a", "ab", "\u{e9}", "\u{1f600}", "a\u{301}", "b\n"].iter().map(|s| MV::s(s)).collect();
    for (kind, set) in [("list", &short), ("string", &strs)] {
        for a in set.iter() {
            for c in set.iter() {
                if !run.take() {
                    continue;
                }
                env.frames.truncate(1);
                env.set("a", a.clone());
                env.set("c", c.clone());
                let ctx = hosts::context_for(&env, &log);
                let av = || E::Var("a".into());
                let cv = || E::Var("c".into());
                let cat = || E::Bin("+", b(av()), b(cv()));
                // size is additive (evaluated entirely by the subject: independent of the unit size() counts in)
                let additive = E::Bin("==", b(call("size", vec![cat()])), b(E::Bin("+", b(call("size", vec![av()])), b(call("size", vec![cv()])))));
                let src = additive.src();
                let got = subj::run_src(&src, &ctx);
                run.trans(2);
                run.validated();
                run.nontrivial();
                run.class(&format!("concat:{}:additive:{}", kind, got.tag()), || json!({"src": src, "a": a.show(), "c": c.show()}));
                if got != Out::Val(MV::Bool(true)) {
                    run.fail(&format!("C14|concat|{}|size-not-additive|got={}", kind, got.tag()), format!("`{}` with a={} c={} gave {}", src, a.show(), c.show(), got.show()), json!({"a": a.show(), "c": c.show()}));
                }
                // order preserved, operands intact: [a + c, a, c, (a + c) + a, a] against the model
                let probe = E::List(vec![cat(), av(), cv(), E::Bin("+", b(cat()), b(av())), av(), E::Bin("+", b(av()), b(av())), av()]);
                judge(run, "concat", kind, &probe, &mut env, &ctx, None);
                // every ownership mix of the operands: context variable (shared storage), literal and
                // temporary (uniquely owned storage), on either side
                let la = || E::Lit(a.clone());
                let lc = || E::Lit(c.clone());
                let probe2 = E::List(vec![
                    E::Bin("+", b(av()), b(lc())),
                    E::Bin("+", b(la()), b(cv())),
                    E::Bin("+", b(la()), b(lc())),
                    E::Bin("+", b(av()), b(E::Bin("+", b(cv()), b(cv())))),
                    E::Bin("+", b(av()), b(E::Bin("+", b(cv()), b(lc())))),
                    E::Bin("+", b(E::Bin("+", b(la()), b(cv()))), b(av())),
                    E::Bin("+", b(E::Bin("+", b(av()), b(lc()))), b(E::Bin("+", b(lc()), b(av())))),
                    av(),
                    cv(),
                ]);
                judge(run, "concat-ownership", kind, &probe2, &mut env, &ctx, None);
                // the context variables themselves are unchanged afterwards
                for (nm, orig) in [("a", a), ("c", c)] {
                    match ctx.get_variable(nm) {
                        Ok(v) if MV::from_value(&v) == *orig => {}
                        other => run.fail(
                            &format!("C14|concat|{}|operand-changed", kind),
                            format!("after evaluating `{}` the context variable {} is {:?}, it was {}", probe.src(), nm, other.map(|v| MV::from_value(&v).show()), orig.show()),
                            json!({"a": a.show(), "c": c.show()}),
                        ),
                    }
                }
            }
        }
    }
}

//! C02 — executing any program against any context returns a value or an error.
use crate::core::{guard, with_budget, Run};
use crate::mv::{MK, MV};
use crate::reval::{b, call, mcall, E};
use crate::tspace::{Prod, TypedSpace};
use cel_interpreter::{Context, Program, Value};
use serde_json::json;
use std::sync::Arc;

/// host-supplied values at the extremes of their ranges
pub fn extreme_values() -> Vec<(String, Value)> {
    let mut v: Vec<Value> = vec![];
    for i in [0i64, 1, -1, i64::MAX, i64::MIN, 1 << 53, 2] {
        v.push(Value::Int(i));
    }
    for u in [0u64, 1, u64::MAX, 1 << 63] {
        v.push(Value::UInt(u));
    }
    for f in [0.0f64, -0.0, 1.5, f64::NAN, f64::INFINITY, f64::NEG_INFINITY, f64::MAX, 5e-324, -1e19] {
        v.push(Value::Float(f));
    }
    v.push(Value::Bool(true));
    v.push(Value::Bool(false));
    v.push(Value::Null);
    for s in ["", "a", "\u{e9}\u{1f600}", "0", "1h", "abc"] {
        v.push(Value::String(Arc::new(s.to_string())));
    }
    v.push(Value::String(Arc::new("x\u{e9}".repeat(512))));
    for bts in [vec![], vec![0xffu8], vec![0x61, 0x00, 0xc3]] {
        v.push(Value::Bytes(Arc::new(bts)));
    }
    let l = |xs: Vec<MV>| MV::List(xs).to_value();
    v.push(l(vec![]));
    v.push(l(vec![MV::Int(1), MV::Int(2), MV::Int(3)]));
    v.push(l(vec![MV::List(vec![MV::Int(1)]), MV::List(vec![])]));
    v.push(l(vec![MV::Null, MV::s("a"), MV::f(f64::NAN), MV::Uint(1), MV::Map(vec![])]));
    v.push(MV::Map(vec![]).to_value());
    v.push(MV::Map(vec![(MK::Str("a".into()), MV::Int(1)), (MK::Int(1), MV::s("x")), (MK::Uint(2), MV::Null), (MK::Bool(true), MV::List(vec![]))]).to_value());
    v.push(MV::Map(vec![(MK::Str("a".into()), MV::Map(vec![(MK::Str("b".into()), MV::Map(vec![]))]))]).to_value());
    for d in [chrono::Duration::zero(), chrono::Duration::nanoseconds(1), chrono::Duration::nanoseconds(-1), chrono::Duration::nanoseconds(i64::MAX), chrono::Duration::nanoseconds(i64::MIN), chrono::Duration::MAX, chrono::Duration::MIN] {
        v.push(Value::Duration(d));
    }
    let utc = |s: i64| chrono::DateTime::from_timestamp(s, 0).unwrap().fixed_offset();
    v.push(Value::Timestamp(utc(0)));
    v.push(Value::Timestamp(utc(-62135596800))); // year 1
    v.push(Value::Timestamp(utc(253402300799))); // year 9999
    v.push(Value::Timestamp(chrono::DateTime::<chrono::Utc>::MIN_UTC.fixed_offset()));
    v.push(Value::Timestamp(chrono::DateTime::<chrono::Utc>::MAX_UTC.fixed_offset()));
    v.push(Value::Timestamp(chrono::DateTime::<chrono::Utc>::MAX_UTC.with_timezone(&chrono::FixedOffset::west_opt(23 * 3600 + 59 * 60).unwrap())));
    v.push(Value::Timestamp(chrono::DateTime::<chrono::Utc>::MIN_UTC.with_timezone(&chrono::FixedOffset::east_opt(23 * 3600 + 59 * 60).unwrap())));
    // the two remaining corners: local time beyond chrono's own limits
    v.push(Value::Timestamp(chrono::DateTime::<chrono::Utc>::MIN_UTC.with_timezone(&chrono::FixedOffset::west_opt(23 * 3600 + 59 * 60).unwrap())));
    v.push(Value::Timestamp(chrono::DateTime::<chrono::Utc>::MAX_UTC.with_timezone(&chrono::FixedOffset::east_opt(23 * 3600 + 59 * 60).unwrap())));
    v.push(Value::Function(Arc::new("size".to_string()), None));
    v.push(Value::Function(Arc::new("nope".to_string()), Some(Box::new(Value::Int(1)))));
    v.into_iter().enumerate().map(|(i, x)| (format!("v{}", i), x)).collect()
}

fn kind_of(v: &Value) -> &'static str {
    MV::from_value(v).kind()
}

const BUILTINS: [&str; 24] = [
    "contains", "size", "max", "min", "startsWith", "endsWith", "string", "bytes", "double", "int", "uint", "matches", "duration", "timestamp", "getFullYear", "getMonth",
    "getDayOfYear", "getDayOfMonth", "getDate", "getDayOfWeek", "getHours", "getMinutes", "getSeconds", "getMilliseconds",
];
const BINOPS: [&str; 14] = ["||", "&&", "<", "<=", ">=", ">", "==", "!=", "in", "+", "-", "*", "/", "%"];

fn prods() -> Vec<Prod> {
    fn p(kids: usize, name: &'static str, f: impl Fn(Vec<E>) -> E + Send + Sync + 'static) -> Prod {
        Prod { res: 0, kids: vec![0; kids], name, build: Box::new(f) }
    }
    let mut ps: Vec<Prod> = vec![];
    for op in BINOPS {
        ps.push(p(2, op, move |k| E::Bin(op, b(k[0].clone()), b(k[1].clone()))));
    }
    ps.push(p(1, "!", |k| E::Un("!", b(k[0].clone()))));
    ps.push(p(1, "neg", |k| E::Un("-", b(k[0].clone()))));
    ps.push(p(3, "?:", |k| E::Cond(b(k[0].clone()), b(k[1].clone()), b(k[2].clone()))));
    ps.push(p(2, "index", |k| E::Index(b(k[0].clone()), b(k[1].clone()))));
    ps.push(p(1, "select-a", |k| E::Select(b(k[0].clone()), "a".into())));
    ps.push(p(1, "select-size", |k| E::Select(b(k[0].clone()), "size".into())));
    ps.push(p(1, "has-a", |k| E::Has(b(k[0].clone()), "a".into())));
    ps.push(p(1, "list1", |k| E::List(k)));
    ps.push(p(2, "list2", |k| E::List(k)));
    ps.push(p(2, "map1", |k| E::Map(vec![(k[0].clone(), k[1].clone())])));
    ps.push(p(1, "struct", |k| E::Call("T{f: ".into(), None, k))); // printed specially below
    for f in BUILTINS {
        ps.push(p(0, f, move |_| call(f, vec![])));
        ps.push(p(1, f, move |k| call(f, k)));
        ps.push(p(1, f, move |k| mcall(k[0].clone(), f, vec![])));
        ps.push(p(2, f, move |k| call(f, k)));
        ps.push(p(2, f, move |k| mcall(k[0].clone(), f, vec![k[1].clone()])));
    }
    ps.push(p(3, "max3", |k| call("max", k)));
    ps.push(p(3, "contains3", |k| mcall(k[0].clone(), "contains", vec![k[1].clone(), k[2].clone()])));
    for m in ["all", "exists", "exists_one", "existsOne", "map", "filter"] {
        ps.push(p(2, m, move |k| E::Macro(m, b(k[0].clone()), "x".into(), vec![k[1].clone()])));
    }
    ps.push(p(3, "map3", |k| E::Macro("map", b(k[0].clone()), "x".into(), vec![k[1].clone(), k[2].clone()])));
    ps.push(p(1, "undeclared-fn", |k| call("nosuch", k)));
    ps.push(p(1, "undeclared-method", |k| mcall(k[0].clone(), "nosuch", vec![])));
    ps
}

fn fix_struct(s: String) -> String {
    // "T{f: (x)" -> "T{f: x}"
    let mut out = String::new();
    let mut rest = s.as_str();
    while let Some(i) = rest.find("T{f: (") {
        out.push_str(&rest[..i]);
        out.push_str("T{f: ");
        let after = &rest[i + 6..];
        // find the matching close paren
        let mut depth = 1;
        let mut j = 0;
        for (k, c) in after.char_indices() {
            if c == '(' {
                depth += 1;
            } else if c == ')' {
                depth -= 1;
                if depth == 0 {
                    j = k;
                    break;
                }
            }
        }
        out.push_str(&after[..j]);
        out.push('}');
        rest = &after[j + 1..];
    }
    out.push_str(rest);
    out
}

fn count_nodes(e: &E) -> u64 {
    e.size() as u64
}

fn run_program(run: &mut Run, family: &str, src: &str, nodes: u64, ctx: &Context) {
    let case = || json!({"src": src});
    let prog = match guard(|| Program::compile(src)) {
        Ok(Ok(p)) => p,
        Ok(Err(_)) => {
            run.class(&format!("{}:compile-error", family), case);
            return;
        }
        Err(p) => {
            // a compile panic is C01's business, but it is a crash all the same
            run.fail(&format!("C02|{}|compile-panic", family), format!("compile(`{}`) panicked: {}", src, p), case());
            return;
        }
    };
    let budget = 64 * (nodes + 4) * 64;
    let (r, steps, over) = with_budget(budget, || prog.execute(ctx));
    run.trans(2);
    run.validated();
    run.extra_add("sum_resolve_steps", steps);
    let class = match &r {
        Ok(Ok(v)) => format!("value:{}", kind_of(v)),
        Ok(Err(e)) => format!("error:{}", crate::mv::classify_err(e).tag0()),
        Err(_) if over => "budget".to_string(),
        Err(_) => "panic".to_string(),
    };
    if matches!(r, Ok(Err(_))) || matches!(r, Err(_)) {
        run.nontrivial();
    }
    run.class(&format!("{}:{}", family, class), case);
    if let Err(p) = &r {
        if over {
            run.fail(&format!("C02|{}|step-budget", family), format!("`{}` exceeded {} evaluation steps", src, budget), case());
        } else {
            run.fail(&format!("C02|{}|panic|{}|{}", family, crate::core::panic_site(p), crate::core::panic_kind(p)), format!("`{}` panicked: {}", src, p), case());
        }
    }
}

pub fn run(run: &mut Run) {
    run.set_case_limit_ms(20_000);
    let vals = extreme_values();
    let mut ctx = Context::default();
    for (n, v) in vals.iter() {
        ctx.add_variable_from_value(n.clone(), v.clone());
    }
    ctx.add_variable_from_value("x0", Value::Int(1));

    // ---- (a) every ordered pair of extreme values under every host-side operator
    run.sub("value-operators");
    for (na, a) in vals.iter() {
        for (nb, c) in vals.iter() {
            for op in 0..7 {
                if !run.take() {
                    continue;
                }
                let (a2, c2) = (a.clone(), c.clone());
                let r = guard(move || match op {
                    0 => (a2 + c2).is_ok(),
                    1 => (a2 - c2).is_ok(),
                    2 => (a2 * c2).is_ok(),
                    3 => (a2 / c2).is_ok(),
                    4 => (a2 % c2).is_ok(),
                    5 => a2 == c2,
                    _ => a2.partial_cmp(&c2).is_some(),
                });
                run.trans(1);
                run.validated();
                let opn = ["+", "-", "*", "/", "%", "==", "partial_cmp"][op];
                let case = || json!({"a": format!("{}={:?}", na, MV::from_value(a).show()), "b": format!("{}={:?}", nb, MV::from_value(c).show()), "op": opn});
                match &r {
                    Ok(ok) => {
                        if !ok {
                            run.nontrivial();
                        }
                        run.class(&format!("op:{}:{}-{}:{}", opn, kind_of(a), kind_of(c), if *ok { "ok" } else { "err/none" }), case);
                    }
                    Err(p) => {
                        run.class(&format!("op:{}:{}-{}:panic", opn, kind_of(a), kind_of(c)), case);
                        run.fail(&format!("C02|value-op|{}|{}-{}|panic|{}", opn, kind_of(a), kind_of(c), crate::core::panic_kind(p)), format!("{} {} {} panicked: {}", MV::from_value(a).show(), opn, MV::from_value(c).show(), p), case());
                    }
                }
            }
        }
    }

    // ---- (b) programs: depth 1 over the full leaf alphabet, depth 2 over a per-kind sub-alphabet
    let var = |n: &str| E::Var(n.to_string());
    let lit = |m: MV| E::Lit(m);
    let mut full: Vec<E> = vals.iter().map(|(n, _)| var(n)).collect();
    full.extend(vec![lit(MV::Int(0)), lit(MV::Int(i64::MIN)), lit(MV::Uint(u64::MAX)), lit(MV::f(1e300)), lit(MV::s("")), lit(MV::Bytes(vec![0xff])), lit(MV::Null), lit(MV::Bool(true)), var("x"), var("undefined_name"), E::List(vec![]), E::Map(vec![])]);
    let ps = prods();
    {
        let sp = TypedSpace::new(vec![full.clone()], prods(), 1);
        run.sub("programs-1op");
        let cnt = sp.count(0, 1);
        let mut i: u128 = 0;
        while i < cnt {
            if run.take() {
                let e = sp.unrank(0, 1, i);
                let src = fix_struct(e.src());
                run_program(run, "prog1", &src, count_nodes(&e), &ctx);
            }
            i += 1;
        }
    }
    {
        // one leaf per kind, preferring the extreme of that kind
        let pick = |k: &str| -> E {
            let mut best: Option<&(String, Value)> = None;
            for nv in vals.iter() {
                if kind_of(&nv.1) == k {
                    best = Some(nv);
                }
            }
            var(&best.unwrap().0)
        };
        let mut sub: Vec<E> = vec![var("v4"), pick("list"), var("x"), pick("string")];
        if !run.quick() {
            sub.extend(vec![pick("map"), pick("double"), pick("timestamp"), pick("duration")]);
        }
        let sp = TypedSpace::new(vec![sub], prods(), 2);
        run.sub("programs-2op");
        let cnt = sp.count(0, 2);
        let mut i: u128 = 0;
        while i < cnt {
            if run.take() {
                let e = sp.unrank(0, 2, i);
                let src = fix_struct(e.src());
                run_program(run, "prog2", &src, count_nodes(&e), &ctx);
            }
            i += 1;
        }
        run.rep.extra.insert("programs_2op_space".into(), json!(cnt.to_string()));
    }
    let _ = ps;

    // ---- (d) host functions of arity 0-9 over every parameter type and extractor, called with
    //      0..arity+2 matching / mismatching arguments in both styles: never a panic
    crate::props::c20::part_hosts_for(run, "C02", true);

    // ---- (c) spines: every sequence of wrappers to depth 6 (thorough 8)
    let wrappers: Vec<Box<dyn Fn(E) -> E>> = vec![
        Box::new(|e| E::Un("-", b(e))),
        Box::new(|e| E::Un("!", b(e))),
        Box::new(|e| E::List(vec![e])),
        Box::new(|e| E::Select(b(E::Map(vec![(E::Lit(MV::s("k")), e)])), "k".into())),
        Box::new(|e| call("int", vec![e])),
        Box::new(|e| E::Macro("map", b(e), "x".into(), vec![E::Var("x".into())])),
        Box::new(|e| E::Cond(b(e.clone()), b(e), b(E::Lit(MV::Int(1))))),
        Box::new(|e| E::Bin("+", b(e.clone()), b(e))),
    ];
    let depth = run.pick(5usize, 7usize);
    let find = |pred: &dyn Fn(&Value) -> bool| -> E { var(&vals.iter().find(|nv| pred(&nv.1)).expect("value present").0) };
    let l_int = find(&|v| matches!(v, Value::Int(i) if *i == i64::MIN));
    let l_list = find(&|v| matches!(v, Value::List(l) if l.len() == 3));
    let l_str = find(&|v| matches!(v, Value::String(s) if s.as_str() == "abc"));
    let l_map = find(&|v| matches!(v, Value::Map(m) if m.map.len() == 4));
    let spine_leaves: Vec<E> = if run.quick() { vec![l_int, l_list] } else { vec![l_int, l_list, l_str, l_map] };
    run.sub("spines");
    let nw = wrappers.len() as u64;
    for d in 1..=depth {
        let total = nw.pow(d as u32);
        for code in 0..total {
            for leaf in spine_leaves.iter() {
                if !run.take() {
                    continue;
                }
                let mut c = code;
                let mut e = leaf.clone();
                for _ in 0..d {
                    e = wrappers[(c % nw) as usize](e);
                    c /= nw;
                }
                // self-duplicating wrappers grow the tree: cap the node count instead of the depth
                if e.size() > 400 {
                    continue;
                }
                let src = e.src();
                run_program(run, "spine", &src, count_nodes(&e), &ctx);
            }
        }
    }

    // ---- (e) dense small values: every ordered pair of all strings / byte strings of length <= 3
    //      over {a, b}, all lists of length <= 2 over {1, 2} and a few numbers, under every binary
    //      built-in and operator, written as literals (scanning / slicing code paths whose edge
    //      cases depend on where a prefix of the needle occurs)
    run.sub("dense-small-values");
    {
        let mut pool: Vec<String> = vec![];
        let mut words: Vec<String> = vec![String::new()];
        let mut last = vec![String::new()];
        for _ in 0..3 {
            let mut next = vec![];
            for w in &last {
                for c in ["a", "b"] {
                    next.push(format!("{}{}", w, c));
                }
            }
            words.extend(next.iter().cloned());
            last = next;
        }
        for w in &words {
            pool.push(format!("'{}'", w));
        }
        for w in &words {
            pool.push(format!("b'{}'", w));
        }
        for l in ["[]", "[1]", "[2]", "[1, 1]", "[1, 2]", "[2, 1]", "[2, 2]", "{}", "{1: 2}", "{'a': 'b'}"] {
            pool.push(l.to_string());
        }
        for n in ["0", "1", "2", "3", "-1", "0u", "1u", "3u", "0.5", "true", "null"] {
            pool.push(n.to_string());
        }
        let templates = [
            "X.contains(Y)", "X.startsWith(Y)", "X.endsWith(Y)", "X.matches(Y)", "X + Y", "X == Y", "X < Y", "X in Y", "X[Y]", "X - Y", "X * Y", "X / Y", "X % Y", "max(X, Y)", "min([X, Y])",
            "contains(X, Y)", "[X].contains(Y)", "{X: Y}[X]", "X != Y ? X : Y", "size(X) + size(Y)", "string(X) + string(Y)", "bytes(X) + bytes(Y)", "(X + Y).contains(Y)", "(X + Y)[size(X)]",
        ];
        for t in templates.iter() {
            for x in pool.iter() {
                for y in pool.iter() {
                    if !run.take() {
                        continue;
                    }
                    let src = t.replace('X', x).replace('Y', y);
                    run_program(run, "dense", &src, 8, &ctx);
                }
            }
        }
    }

    // ---- (f) text-consuming built-ins over long and degenerate numeric texts: digit runs of
    //      every length around the widths at which 64/128-bit accumulators and powers of ten
    //      overflow, with leading zeros, fractions, exponents, signs and unit suffixes
    run.sub("numeric-texts");
    {
        let lens = [0usize, 1, 2, 9, 10, 17, 18, 19, 20, 21, 37, 38, 39, 40, 41, 63, 64, 65, 127, 128, 129, 200, 309, 310, 400, 1100];
        let mut bodies: Vec<String> = vec![];
        for &n in lens.iter() {
            bodies.push("9".repeat(n));
            bodies.push(format!("{}1", "0".repeat(n)));
            bodies.push(format!("0.{}1", "0".repeat(n)));
            bodies.push(format!("1.{}", "9".repeat(n)));
            bodies.push(format!("{}.{}", "9".repeat(n), "9".repeat(n)));
            bodies.push(format!("1e{}", "9".repeat(n)));
            bodies.push(format!("1e-{}", "9".repeat(n)));
            bodies.push(format!("0x{}", "f".repeat(n)));
        }
        let suffixes = ["", "s", "h", "ns", "ms", "u", "m1s", "Z"];
        let progs: Vec<(String, Program)> = ["duration(v)", "timestamp(v)", "int(v)", "uint(v)", "double(v)", "string(v)", "bytes(v)", "v.matches(v)", "timestamp('2000-01-01T00:00:00' + v)", "duration('1h' + v)"]
            .iter()
            .map(|s| (s.to_string(), Program::compile(s).unwrap()))
            .collect();
        for body in bodies.iter() {
            for sign in ["", "-", "+"] {
                for suf in suffixes.iter() {
                    let text = format!("{}{}{}", sign, body, suf);
                    let mut c2 = ctx.new_inner_scope();
                    c2.add_variable_from_value("v", text.clone());
                    for (src, p) in progs.iter() {
                        if !run.take() {
                            continue;
                        }
                        let r = guard(|| p.execute(&c2).is_ok());
                        run.trans(1);
                        run.validated();
                        let short: String = text.chars().take(24).collect();
                        let case = || json!({"program": src, "v_len": text.len(), "v_prefix": short, "v": if text.len() <= 200 { text.clone() } else { String::new() }});
                        match &r {
                            Ok(ok) => {
                                if !ok {
                                    run.nontrivial();
                                }
                                run.class(&format!("numtext:{}:{}", src, if *ok { "ok" } else { "err" }), case);
                            }
                            Err(pn) => {
                                run.class(&format!("numtext:{}:panic", src), case);
                                run.fail(&format!("C02|numeric-text|{}|panic|{}", src, crate::core::panic_kind(pn)), format!("`{}` with v = {:?}... ({} chars) panicked: {}", src, short, text.len(), pn), case());
                            }
                        }
                    }
                }
            }
        }
    }
}

//! C18 — exporting a CEL value to JSON is total and faithful.
use crate::core::{guard, Run};
use crate::mv::{MK, MV};
use crate::props::c16::Local;
use crate::refsem::model_eq;
use cel_interpreter::{to_value, Value};
use serde_json::{json, Value as J};

fn b64(data: &[u8]) -> String {
    const T: &[u8; 64] = b"ABCDEFGHIJKLMNOPQRSTUVWXYZabcdefghijklmnopqrstuvwxyz0123456789+/";
    let mut o = String::new();
    for ch in data.chunks(3) {
        let b = [ch[0], *ch.get(1).unwrap_or(&0), *ch.get(2).unwrap_or(&0)];
        let n = ((b[0] as u32) << 16) | ((b[1] as u32) << 8) | b[2] as u32;
        o.push(T[(n >> 18) as usize & 63] as char);
        o.push(T[(n >> 12) as usize & 63] as char);
        o.push(if ch.len() > 1 { T[(n >> 6) as usize & 63] as char } else { '=' });
        o.push(if ch.len() > 2 { T[n as usize & 63] as char } else { '=' });
    }
    o
}

fn key_text(k: &MK) -> String {
    match k {
        MK::Int(i) => i.to_string(),
        MK::Uint(u) => u.to_string(),
        MK::Bool(b) => b.to_string(),
        MK::Str(s) => s.clone(),
    }
}

/// must the export fail? (a function value or an oversized duration anywhere inside)
fn excluded(v: &MV) -> bool {
    match v {
        MV::Function(..) => true,
        MV::Duration(s, n) => {
            let ns = *s as i128 * 1_000_000_000 + *n as i128;
            ns < i64::MIN as i128 || ns > i64::MAX as i128
        }
        MV::List(l) => l.iter().any(excluded),
        MV::Map(es) => es.iter().any(|(_, x)| excluded(x)),
        _ => false,
    }
}

/// structural correspondence between a value and its exported document
fn corresponds(v: &MV, j: &J) -> bool {
    match (v, j) {
        (MV::Null, J::Null) => true,
        (MV::Bool(b), J::Bool(c)) => b == c,
        (MV::Int(i), J::Number(n)) => n.as_i64() == Some(*i),
        (MV::Uint(u), J::Number(n)) => n.as_u64() == Some(*u),
        (MV::Float(bits), _) => {
            let f = f64::from_bits(*bits);
            if f.is_finite() {
                matches!(j, J::Number(n) if n.as_f64().map(|g| g.to_bits()) == Some(f.to_bits()) || (f == 0.0 && n.as_f64() == Some(0.0)))
            } else {
                j.is_null()
            }
        }
        (MV::Str(s), J::String(t)) => s == t,
        (MV::Bytes(b), J::String(t)) => b64(b) == *t,
        (MV::Duration(s, n), J::Number(num)) => {
            let ns = *s as i128 * 1_000_000_000 + *n as i128;
            num.as_i64().map(|x| x as i128) == Some(ns)
        }
        (MV::Timestamp(s, n, off), J::String(t)) => {
            // the instant rendered at its own offset by the reference printer
            let want = shift(*s, *n as i64).at_offset(*off as i64).text();
            *t == want || *t == want.replace('Z', "+00:00")
        }
        (MV::List(l), J::Array(a)) => l.len() == a.len() && l.iter().zip(a.iter()).all(|(x, y)| corresponds(x, y)),
        (MV::Map(es), J::Object(o)) => {
            let mut texts: Vec<String> = es.iter().map(|(k, _)| key_text(k)).collect();
            texts.sort();
            texts.dedup();
            if texts.len() != o.len() {
                return false;
            }
            // every object member corresponds to one of the entries with that key text
            texts.iter().all(|t| match o.get(t) {
                Some(jv) => es.iter().any(|(k, x)| key_text(k) == *t && corresponds(x, jv)),
                None => false,
            })
        }
        _ => false,
    }
}

/// the UTC instant `secs` seconds (+ `ns`) after the epoch as a civil date-time at offset 0
fn shift(secs: i64, ns: i64) -> Local {
    let days = secs.div_euclid(86400);
    let sod = secs.rem_euclid(86400);
    let (y, mo, d) = crate::props::c16::civil_from_days(days);
    Local { y, mo, d, h: sod / 3600, mi: (sod % 3600) / 60, s: sod % 60, ns, off: 0 }
}

fn json_native(v: &MV) -> bool {
    match v {
        MV::Null | MV::Bool(_) | MV::Int(_) | MV::Uint(_) | MV::Str(_) => true,
        MV::Float(b) => f64::from_bits(*b).is_finite(),
        MV::List(l) => l.iter().all(json_native),
        MV::Map(es) => es.iter().all(|(k, x)| matches!(k, MK::Str(_)) && json_native(x)),
        _ => false,
    }
}

fn leaves() -> Vec<MV> {
    let big = chrono::Duration::MAX;
    vec![
        MV::Null,
        MV::Bool(true),
        MV::Int(-1),
        MV::Int(i64::MAX),
        MV::Uint(u64::MAX),
        MV::f(1.5),
        MV::f(1.0),
        MV::f(f64::NAN),
        MV::f(f64::NEG_INFINITY),
        MV::s(""),
        MV::s("\u{e9}\"\\\n"),
        MV::Bytes(vec![0, 255, 16]),
        MV::Bytes(vec![]),
        MV::Bytes(vec![1, 2]),
        MV::Bytes((0u8..=255).collect()),
        MV::Bytes(vec![0xfb, 0xef, 0xbe, 0xff, 0xff, 0xff]),
        MV::Bytes(vec![0xf8]),
        MV::Bytes(vec![0x61, 0x62, 0x3f]),
        MV::Duration(1, 0),
        MV::Duration(9223372036, 854775807),
        MV::Duration(-9223372037, 145224192),
        MV::Duration(9223372036, 854775808),
        MV::Duration(big.num_seconds(), big.subsec_nanos()),
        MV::Timestamp(0, 0, 5 * 3600 + 45 * 60),
        MV::Timestamp(-1, 999_999_999, 0),
        MV::Function("f".into(), None),
        MV::Function("g".into(), Some(Box::new(MV::Int(1)))),
        MV::List(vec![]),
        MV::Map(vec![]),
    ]
}

fn keys() -> Vec<MK> {
    vec![MK::Str("k".into()), MK::Int(1), MK::Uint(1), MK::Str("1".into()), MK::Bool(true), MK::Str("true".into())]
}

fn map_of(es: Vec<(MK, MV)>) -> MV {
    let mut es = es;
    es.sort();
    MV::Map(es)
}

fn check(run: &mut Run, depth: usize, v: &MV) {
    let val = v.to_value();
    let r = guard(|| val.json().map_err(|e| e.to_string()));
    run.trans(1);
    run.validated();
    let must_fail = excluded(v);
    let case = || json!({"value": v.show()});
    let class;
    match &r {
        Err(p) => {
            class = "panic";
            run.fail(&format!("C18|depth{}|panic|{}", depth, if must_fail { "excluded-value" } else { "exportable-value" }), format!("json() of {} panicked: {}", v.show(), p), case());
        }
        Ok(Err(_)) => {
            class = "error";
            if !must_fail {
                run.fail(&format!("C18|depth{}|unexpected-error", depth), format!("json() of {} failed although it contains no function and no oversized duration", v.show()), case());
            }
        }
        Ok(Ok(j)) => {
            class = "document";
            if must_fail {
                run.fail(&format!("C18|depth{}|excluded-value-exported", depth), format!("json() of {} succeeded with {} but the value contains a function or an oversized duration", v.show(), j), case());
            } else if !corresponds(v, j) {
                run.fail(&format!("C18|depth{}|wrong-document|{}", depth, v.kind()), format!("json() of {} gave {}", v.show(), j), case());
            } else if json_native(v) {
                // importing the exported document back yields an equal value
                let back = guard(|| to_value(j).map(|x| MV::from_value(&x)).map_err(|e| e.to_string()));
                run.trans(1);
                let distinct_texts = true; // string keys only: texts are the keys themselves
                match back {
                    Ok(Ok(bv)) if distinct_texts && model_eq(&bv, v) => {}
                    other => run.fail(&format!("C18|depth{}|import-back|{}", depth, v.kind()), format!("to_value(json({})) gave {:?}", v.show(), other.map(|r| r.map(|m| m.show()))), case()),
                }
            }
        }
    }
    if must_fail || matches!(v, MV::Map(es) if es.len() > 1) {
        run.nontrivial();
    }
    run.class(&format!("depth{}:{}:{}", depth, v.kind(), class), case);
    let _: Option<Value> = None;
}

pub fn run(run: &mut Run) {
    let v0 = leaves();
    let ks = keys();
    run.sub("depth0");
    for v in &v0 {
        if run.take() {
            check(run, 0, v);
        }
    }
    // depth 1: lists of 1..2 leaves, maps of 1..2 entries over every key pair
    let mut v1: Vec<MV> = vec![];
    for a in &v0 {
        v1.push(MV::List(vec![a.clone()]));
        for k in &ks {
            v1.push(map_of(vec![(k.clone(), a.clone())]));
        }
    }
    for a in &v0 {
        for c in &v0 {
            v1.push(MV::List(vec![a.clone(), c.clone()]));
        }
    }
    for (i, k1) in ks.iter().enumerate() {
        for k2 in ks.iter().skip(i + 1) {
            for a in v0.iter().step_by(2) {
                for c in v0.iter().skip(1).step_by(3) {
                    v1.push(map_of(vec![(k1.clone(), a.clone()), (k2.clone(), c.clone())]));
                }
            }
        }
    }
    run.sub("depth1");
    for v in &v1 {
        if run.take() {
            check(run, 1, v);
        }
    }
    // depth 2
    run.sub("depth2");
    let quick = run.quick();
    let v1s: Vec<&MV> = v1.iter().collect();
    let mut count2 = 0u64;
    for a in v1s.iter() {
        if run.take() {
            check(run, 2, &MV::List(vec![(*a).clone()]));
        }
        for k in ks.iter() {
            if run.take() {
                check(run, 2, &map_of(vec![(k.clone(), (*a).clone())]));
            }
        }
        for c in v0.iter().step_by(if quick { 2 } else { 1 }) {
            if run.take() {
                check(run, 2, &MV::List(vec![c.clone(), (*a).clone()]));
            }
            if run.take() {
                check(run, 2, &map_of(vec![(MK::Int(1), c.clone()), (MK::Str("1".into()), (*a).clone())]));
            }
        }
        count2 += 1;
    }
    let _ = count2;
    // depth 3: every depth-1 value inside two further levels (thorough)
    if !quick {
        run.sub("depth3");
        for a in v1.iter() {
            for wrap in 0..4 {
                if !run.take() {
                    continue;
                }
                let inner = match wrap {
                    0 => MV::List(vec![MV::List(vec![a.clone()])]),
                    1 => MV::List(vec![map_of(vec![(MK::Str("k".into()), a.clone())])]),
                    2 => map_of(vec![(MK::Bool(true), MV::List(vec![MV::Null, a.clone()]))]),
                    _ => map_of(vec![(MK::Uint(1), map_of(vec![(MK::Int(1), a.clone())]))]),
                };
                check(run, 3, &inner);
            }
        }
    }
}

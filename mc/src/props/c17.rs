//! C17 — host data converts to CEL values without loss of structure.
use crate::core::{guard, Run};
use crate::mv::{MK, MV};
use cel_interpreter::{to_value, Value};
use serde::ser::{SerializeMap, SerializeSeq, SerializeStruct, SerializeStructVariant, SerializeTuple, SerializeTupleStruct, SerializeTupleVariant};
use serde::{Serialize, Serializer};
use serde_json::json;

const DUR_MARKER: &str = "$__cel_private_Duration";
const TS_MARKER: &str = "$__cel_private_Timestamp";

/// A value of the serde data model; its Serialize impl calls exactly the Serializer method named.
#[derive(Clone, Debug)]
pub enum S {
    I8(i8),
    I16(i16),
    I32(i32),
    I64(i64),
    I128(i128),
    U8(u8),
    U16(u16),
    U32(u32),
    U64(u64),
    U128(u128),
    F32(f32),
    F64(f64),
    Bool(bool),
    Char(char),
    Str(String),
    Bytes(Vec<u8>),
    None,
    Some(Box<S>),
    Unit,
    UnitStruct,
    UnitVariant,
    NewtypeStruct(&'static str, Box<S>),
    NewtypeVariant(Box<S>),
    Seq(Vec<S>),
    Tuple(Vec<S>),
    TupleStruct(Vec<S>),
    TupleVariant(Vec<S>),
    Map(Vec<(S, S)>),
    /// a map written through `SerializeMap::serialize_entry` (what the std collections and
    /// `#[serde(flatten)]` use); a repeated key keeps the last value, as in serde_json
    MapEntries(Vec<(S, S)>),
    /// serialize_value before any serialize_key (protocol misuse by a hand-written impl)
    MapValueFirst(Box<S>),
    Struct(Vec<(&'static str, S)>),
    /// a struct with an explicit name (for the Duration marker payload)
    NamedStruct(&'static str, Vec<(&'static str, S)>),
    StructVariant(Vec<(&'static str, S)>),
    /// a type whose Serialize impl asks the serializer whether it is human readable (as
    /// std::net::IpAddr, uuid, ... do): JSON-commuting requires the human-readable form
    HumanReadable,
    Ip(std::net::IpAddr),
    /// the crate's own wrappers
    Duration(i64, i32),
    Timestamp(i64, u32, i32),
}

impl Serialize for S {
    fn serialize<Z: Serializer>(&self, z: Z) -> Result<Z::Ok, Z::Error> {
        match self {
            S::I8(v) => z.serialize_i8(*v),
            S::I16(v) => z.serialize_i16(*v),
            S::I32(v) => z.serialize_i32(*v),
            S::I64(v) => z.serialize_i64(*v),
            S::I128(v) => z.serialize_i128(*v),
            S::U8(v) => z.serialize_u8(*v),
            S::U16(v) => z.serialize_u16(*v),
            S::U32(v) => z.serialize_u32(*v),
            S::U64(v) => z.serialize_u64(*v),
            S::U128(v) => z.serialize_u128(*v),
            S::F32(v) => z.serialize_f32(*v),
            S::F64(v) => z.serialize_f64(*v),
            S::Bool(v) => z.serialize_bool(*v),
            S::Char(v) => z.serialize_char(*v),
            S::Str(v) => z.serialize_str(v),
            S::Bytes(v) => z.serialize_bytes(v),
            S::None => z.serialize_none(),
            S::Some(v) => z.serialize_some(&**v),
            S::Unit => z.serialize_unit(),
            S::UnitStruct => z.serialize_unit_struct("U"),
            S::UnitVariant => z.serialize_unit_variant("E", 0, "V"),
            S::NewtypeStruct(n, v) => z.serialize_newtype_struct(n, &**v),
            S::NewtypeVariant(v) => z.serialize_newtype_variant("E", 1, "NV", &**v),
            S::Seq(vs) => {
                let mut q = z.serialize_seq(Some(vs.len()))?;
                for v in vs {
                    q.serialize_element(v)?;
                }
                q.end()
            }
            S::Tuple(vs) => {
                let mut q = z.serialize_tuple(vs.len())?;
                for v in vs {
                    q.serialize_element(v)?;
                }
                q.end()
            }
            S::TupleStruct(vs) => {
                let mut q = z.serialize_tuple_struct("TS", vs.len())?;
                for v in vs {
                    q.serialize_field(v)?;
                }
                q.end()
            }
            S::TupleVariant(vs) => {
                let mut q = z.serialize_tuple_variant("E", 2, "TV", vs.len())?;
                for v in vs {
                    q.serialize_field(v)?;
                }
                q.end()
            }
            S::Map(es) => {
                let mut q = z.serialize_map(Some(es.len()))?;
                for (k, v) in es {
                    q.serialize_key(k)?;
                    q.serialize_value(v)?;
                }
                q.end()
            }
            S::MapEntries(es) => {
                let mut q = z.serialize_map(None)?;
                for (k, v) in es {
                    q.serialize_entry(k, v)?;
                }
                q.end()
            }
            S::MapValueFirst(v) => {
                let mut q = z.serialize_map(Some(1))?;
                q.serialize_value(&**v)?;
                q.end()
            }
            S::Struct(fs) => {
                let mut q = z.serialize_struct("ST", fs.len())?;
                q.skip_field("skipped_first")?;
                for (k, v) in fs {
                    q.serialize_field(k, v)?;
                    q.skip_field("skipped_between")?;
                }
                q.end()
            }
            S::NamedStruct(n, fs) => {
                let mut q = z.serialize_struct(n, fs.len())?;
                for (k, v) in fs {
                    q.serialize_field(k, v)?;
                }
                q.end()
            }
            S::StructVariant(fs) => {
                // a skipped field (what `#[serde(skip_serializing_if)]` emits) leaves no trace
                let mut q = z.serialize_struct_variant("E", 3, "SV", fs.len())?;
                q.skip_field("skipped_first")?;
                for (k, v) in fs {
                    q.serialize_field(k, v)?;
                }
                q.skip_field("skipped_last")?;
                q.end()
            }
            S::HumanReadable => {
                if z.is_human_readable() {
                    z.serialize_str("human-readable")
                } else {
                    z.serialize_u8(0)
                }
            }
            S::Ip(ip) => ip.serialize(z),
            S::Duration(s, n) => cel_interpreter::Duration(dur(*s, *n)).serialize(z),
            S::Timestamp(s, n, o) => cel_interpreter::Timestamp(ts(*s, *n, *o)).serialize(z),
        }
    }
}

fn dur(s: i64, n: i32) -> chrono::Duration {
    let total = s as i128 * 1_000_000_000 + n as i128;
    chrono::Duration::new(total.div_euclid(1_000_000_000) as i64, total.rem_euclid(1_000_000_000) as u32).expect("duration")
}
fn ts(s: i64, n: u32, o: i32) -> chrono::DateTime<chrono::FixedOffset> {
    chrono::DateTime::from_timestamp(s, n).expect("ts").with_timezone(&chrono::FixedOffset::east_opt(o).expect("off"))
}

#[derive(Debug, Clone, PartialEq)]
enum Exp {
    /// JSON-representable / fully supported: conversion must succeed with this value
    Must(MV),
    /// conversion may fail; if it succeeds it must yield this value
    IfOk(MV),
    /// only "never panics" is demanded
    Any,
}

/// entries with a key that converts to the very same map key as a later entry are superseded by it
fn dedup_last(es: &[(S, S)]) -> Option<Vec<(S, S)>> {
    let keys: Option<Vec<MK>> = es.iter().map(|(k, _)| key_of(k)).collect();
    let keys = keys?;
    let mut out = vec![];
    for (i, e) in es.iter().enumerate() {
        if !keys[i + 1..].contains(&keys[i]) {
            out.push(e.clone());
        }
    }
    Some(out)
}

fn expected_repeated(es: &[(S, S)]) -> Exp {
    match dedup_last(es) {
        Some(d) => {
            // a superseded entry is still converted: it may fail, or weaken the verdict
            let all: Vec<Exp> = es.iter().map(|(_, v)| expected(v)).collect();
            if all.iter().any(|c| *c == Exp::Any) {
                return Exp::Any;
            }
            let weak = all.iter().any(|c| !matches!(c, Exp::Must(_)));
            match expected(&S::Map(d)) {
                Exp::Must(v) if weak => Exp::IfOk(v),
                other => other,
            }
        }
        None => Exp::Any,
    }
}

fn has_repeated_key(es: &[(S, S)]) -> bool {
    match dedup_last(es) {
        Some(d) => d.len() != es.len(),
        None => false,
    }
}

fn key_of(s: &S) -> Option<MK> {
    Some(match s {
        S::I8(v) => MK::Int(*v as i64),
        S::I16(v) => MK::Int(*v as i64),
        S::I32(v) => MK::Int(*v as i64),
        S::I64(v) => MK::Int(*v),
        S::U8(v) => MK::Uint(*v as u64),
        S::U16(v) => MK::Uint(*v as u64),
        S::U32(v) => MK::Uint(*v as u64),
        S::U64(v) => MK::Uint(*v),
        S::Bool(b) => MK::Bool(*b),
        S::Char(c) => MK::Str(c.to_string()),
        S::Str(s) => MK::Str(s.clone()),
        S::UnitVariant => MK::Str("V".into()),
        S::Some(x) => return key_of(x),
        S::NewtypeStruct(n, x) if *n != DUR_MARKER && *n != TS_MARKER => return key_of(x),
        _ => return None,
    })
}

fn single(k: &str, v: MV) -> MV {
    MV::Map(vec![(MK::Str(k.into()), v)])
}

/// structural expectation written from the statement
fn expected(s: &S) -> Exp {
    // combine children: Must only if every child is Must
    fn lift(children: Vec<Exp>, f: impl FnOnce(Vec<MV>) -> MV) -> Exp {
        if children.iter().any(|c| *c == Exp::Any) {
            return Exp::Any;
        }
        let all_must = children.iter().all(|c| matches!(c, Exp::Must(_)));
        let vals: Vec<MV> = children
            .into_iter()
            .map(|c| match c {
                Exp::Must(v) | Exp::IfOk(v) => v,
                Exp::Any => unreachable!(),
            })
            .collect();
        let v = f(vals);
        if all_must {
            Exp::Must(v)
        } else {
            Exp::IfOk(v)
        }
    }
    match s {
        S::I8(v) => Exp::Must(MV::Int(*v as i64)),
        S::I16(v) => Exp::Must(MV::Int(*v as i64)),
        S::I32(v) => Exp::Must(MV::Int(*v as i64)),
        S::I64(v) => Exp::Must(MV::Int(*v)),
        S::I128(v) => match i64::try_from(*v) {
            Ok(x) => Exp::IfOk(MV::Int(x)),
            Err(_) => Exp::Any, // out of range: an error is the only sensible outcome, but only no-panic is demanded
        },
        S::U8(v) => Exp::Must(MV::Uint(*v as u64)),
        S::U16(v) => Exp::Must(MV::Uint(*v as u64)),
        S::U32(v) => Exp::Must(MV::Uint(*v as u64)),
        S::U64(v) => Exp::Must(MV::Uint(*v)),
        S::U128(v) => match u64::try_from(*v) {
            Ok(x) => Exp::IfOk(MV::Uint(x)),
            Err(_) => Exp::Any,
        },
        S::F32(v) => Exp::Must(MV::f(*v as f64)),
        S::F64(v) => Exp::Must(MV::f(*v)),
        S::Bool(b) => Exp::Must(MV::Bool(*b)),
        S::Char(c) => Exp::Must(MV::Str(c.to_string())),
        S::Str(x) => Exp::Must(MV::Str(x.clone())),
        S::Bytes(b) => Exp::IfOk(MV::Bytes(b.clone())),
        S::None | S::Unit | S::UnitStruct => Exp::Must(MV::Null),
        S::UnitVariant => Exp::Must(MV::s("V")),
        S::Some(x) => expected(x),
        S::NewtypeStruct(n, x) => {
            if *n == DUR_MARKER || *n == TS_MARKER {
                // only the crate's own wrappers produce a matching payload
                Exp::Any
            } else {
                expected(x)
            }
        }
        S::NewtypeVariant(x) => lift(vec![expected(x)], |mut v| single("NV", v.remove(0))),
        S::Seq(vs) | S::Tuple(vs) | S::TupleStruct(vs) => lift(vs.iter().map(expected).collect(), MV::List),
        S::TupleVariant(vs) => lift(vs.iter().map(expected).collect(), |v| single("TV", MV::List(v))),
        S::MapEntries(es) if !has_repeated_key(es) => expected(&S::Map(es.clone())),
        S::MapEntries(es) => expected_repeated(es),
        S::Map(es) if has_repeated_key(es) => expected_repeated(es),
        S::Map(es) => {
            let mut keys = vec![];
            for (k, _) in es {
                match key_of(k) {
                    Some(mk) => keys.push(mk),
                    None => return Exp::Any, // unsupported key kind: an error (checked: never a panic)
                }
            }
            lift(es.iter().map(|(_, v)| expected(v)).collect(), move |vals| {
                let mut out: Vec<(MK, MV)> = keys.into_iter().zip(vals).collect();
                out.sort();
                MV::Map(out)
            })
        }
        S::MapValueFirst(_) => Exp::Any,
        S::Struct(fs) | S::NamedStruct(_, fs) => {
            let names: Vec<MK> = fs.iter().map(|(k, _)| MK::Str(k.to_string())).collect();
            lift(fs.iter().map(|(_, v)| expected(v)).collect(), move |vals| {
                let mut out: Vec<(MK, MV)> = names.into_iter().zip(vals).collect();
                out.sort();
                MV::Map(out)
            })
        }
        S::StructVariant(fs) => {
            let names: Vec<MK> = fs.iter().map(|(k, _)| MK::Str(k.to_string())).collect();
            lift(fs.iter().map(|(_, v)| expected(v)).collect(), move |vals| {
                let mut out: Vec<(MK, MV)> = names.into_iter().zip(vals).collect();
                out.sort();
                single("SV", MV::Map(out))
            })
        }
        S::HumanReadable => Exp::Must(MV::s("human-readable")),
        S::Ip(ip) => Exp::Must(MV::Str(ip.to_string())),
        S::Duration(s, n) => {
            let d = dur(*s, *n);
            Exp::Must(MV::Duration(d.num_seconds(), d.subsec_nanos()))
        }
        S::Timestamp(s, n, o) => {
            // years beyond 9999 do not survive the RFC 3339 text the wrapper goes through
            let t = ts(*s, *n, *o);
            use chrono::Datelike;
            let v = MV::Timestamp(*s, *n, *o);
            if t.year() >= 0 && t.year() <= 9999 {
                Exp::Must(v)
            } else {
                Exp::IfOk(v)
            }
        }
    }
}

/// kinds for which "converting and then exporting to JSON equals serialising directly" is demanded
fn json_native(s: &S) -> bool {
    match s {
        S::I8(_) | S::I16(_) | S::I32(_) | S::I64(_) | S::U8(_) | S::U16(_) | S::U32(_) | S::U64(_) | S::Bool(_) | S::Char(_) | S::Str(_) | S::None | S::Unit | S::UnitStruct | S::UnitVariant | S::HumanReadable | S::Ip(_) => true,
        S::F32(v) => v.is_finite(),
        S::F64(v) => v.is_finite(),
        S::Some(x) | S::NewtypeVariant(x) => json_native(x),
        S::NewtypeStruct(n, x) => *n != DUR_MARKER && *n != TS_MARKER && json_native(x),
        S::Seq(v) | S::Tuple(v) | S::TupleStruct(v) | S::TupleVariant(v) => v.iter().all(json_native),
        S::MapEntries(es) => match dedup_last(es) {
            Some(d) => es.iter().all(|(_, v)| json_native(v)) && json_native(&S::Map(d)),
            None => false,
        },
        S::Map(es) if has_repeated_key(es) => match dedup_last(es) {
            Some(d) => es.iter().all(|(_, v)| json_native(v)) && json_native(&S::Map(d)),
            None => false,
        },
        S::Map(es) => {
            let mut texts: Vec<String> = vec![];
            for (k, v) in es {
                match key_of(k) {
                    Some(mk) => texts.push(match mk {
                        MK::Int(i) => i.to_string(),
                        MK::Uint(u) => u.to_string(),
                        MK::Bool(b) => b.to_string(),
                        MK::Str(s) => s,
                    }),
                    None => return false,
                }
                if !json_native(v) {
                    return false;
                }
            }
            let n = texts.len();
            texts.sort();
            texts.dedup();
            texts.len() == n
        }
        S::Struct(fs) | S::NamedStruct(_, fs) | S::StructVariant(fs) => fs.iter().all(|(_, v)| json_native(v)),
        _ => false,
    }
}

fn kind(s: &S) -> &'static str {
    match s {
        S::I8(_) | S::I16(_) | S::I32(_) | S::I64(_) => "int",
        S::I128(_) => "i128",
        S::U8(_) | S::U16(_) | S::U32(_) | S::U64(_) => "uint",
        S::U128(_) => "u128",
        S::F32(_) | S::F64(_) => "float",
        S::Bool(_) => "bool",
        S::Char(_) => "char",
        S::Str(_) => "str",
        S::Bytes(_) => "bytes",
        S::None => "none",
        S::Some(_) => "some",
        S::Unit => "unit",
        S::UnitStruct => "unit_struct",
        S::UnitVariant => "unit_variant",
        S::NewtypeStruct(n, _) => {
            if *n == DUR_MARKER {
                "marker-duration"
            } else if *n == TS_MARKER {
                "marker-timestamp"
            } else {
                "newtype_struct"
            }
        }
        S::NewtypeVariant(_) => "newtype_variant",
        S::Seq(_) => "seq",
        S::Tuple(_) => "tuple",
        S::TupleStruct(_) => "tuple_struct",
        S::TupleVariant(_) => "tuple_variant",
        S::Map(_) => "map",
        S::MapEntries(_) => "map-entries",
        S::MapValueFirst(_) => "map-value-first",
        S::Struct(_) | S::NamedStruct(..) => "struct",
        S::StructVariant(_) => "struct_variant",
        S::HumanReadable | S::Ip(_) => "human-readable",
        S::Duration(..) => "duration-wrapper",
        S::Timestamp(..) => "timestamp-wrapper",
    }
}

fn check(run: &mut Run, depth: usize, s: &S) {
    let exp = expected(s);
    let r = guard(|| to_value(s).map(|v| MV::from_value(&v)).map_err(|e| e.to_string()));
    run.trans(1);
    run.validated();
    let case = || json!({"value": format!("{:?}", s)});
    let class;
    match &r {
        Err(p) => {
            class = "panic";
            run.fail(&format!("C17|{}|panic|depth{}", kind(s), depth), format!("to_value({:?}) panicked: {}", s, p), case());
        }
        Ok(Err(e)) => {
            class = "error";
            if let Exp::Must(v) = &exp {
                run.fail(&format!("C17|{}|unexpected-error|depth{}", kind(s), depth), format!("to_value({:?}) failed with {:?}; expected {}", s, e, v.show()), case());
            }
        }
        Ok(Ok(got)) => {
            class = "value";
            match &exp {
                Exp::Must(v) | Exp::IfOk(v) => {
                    if got != v {
                        run.fail(&format!("C17|{}|wrong-shape|depth{}", kind(s), depth), format!("to_value({:?}) gave {}, expected {}", s, got.show(), v.show()), case());
                    }
                }
                Exp::Any => {}
            }
        }
    }
    // commuting law with serde_json
    if json_native(s) {
        run.nontrivial();
        let direct = guard(|| serde_json::to_value(s).map_err(|e| e.to_string()));
        let via = guard(|| to_value(s).map_err(|e| e.to_string()).and_then(|v: Value| v.json().map_err(|e| e.to_string())));
        run.trans(2);
        match (direct, via) {
            (Ok(Ok(d)), Ok(Ok(v))) => {
                if d != v {
                    run.fail(&format!("C17|{}|json-commute|depth{}", kind(s), depth), format!("{:?}: via CEL {} but serde_json gives {}", s, v, d), case());
                }
            }
            (Ok(Ok(d)), other) => run.fail(&format!("C17|{}|json-commute-failed|depth{}", kind(s), depth), format!("{:?}: serde_json gives {} but the CEL path gave {:?}", s, d, other), case()),
            _ => {}
        }
    }
    run.class(&format!("depth{}:{}:{}", depth, kind(s), class), case);
}

pub fn leaves() -> Vec<S> {
    vec![
        S::I8(0), S::I8(-128), S::I8(127), S::I16(i16::MIN), S::I16(i16::MAX), S::I32(i32::MIN), S::I32(-1), S::I64(i64::MIN), S::I64(i64::MAX), S::I64(0),
        S::I128(0), S::I128(i64::MAX as i128 + 1), S::I128(i128::MIN), S::U8(0), S::U8(255), S::U16(u16::MAX), S::U32(u32::MAX), S::U64(0), S::U64(u64::MAX), S::U64(1 << 63),
        S::U128(7), S::U128(u64::MAX as u128 + 1), S::F32(0.0), S::F32(1.5), S::F32(f32::NAN), S::F32(f32::INFINITY), S::F32(f32::MAX), S::F32(0.1), S::F64(-0.0), S::F64(1e300),
        S::F64(f64::NAN), S::F64(0.1), S::Bool(true), S::Bool(false), S::Char('a'), S::Char('\u{e9}'), S::Char('\0'), S::Char('\u{1f600}'), S::Str(String::new()), S::Str("\u{e9}".into()),
        S::Str("k".into()), S::Str("1".into()), S::Bytes(vec![]), S::Bytes(vec![0, 255]), S::None, S::Unit, S::UnitStruct, S::UnitVariant,
        S::HumanReadable, S::Ip("10.1.2.3".parse().unwrap()), S::Ip("::1".parse().unwrap()),
    ]
}

fn small_leaves() -> Vec<S> {
    vec![S::I8(-1), S::U64(u64::MAX), S::F64(1.5), S::Bool(true), S::Char('c'), S::Str("s".into()), S::Bytes(vec![1]), S::None, S::UnitVariant, S::I128(5), S::F32(f32::NAN), S::I64(i64::MIN)]
}

fn unary(x: &S) -> Vec<S> {
    let b = |x: &S| Box::new(x.clone());
    vec![
        S::Some(b(x)),
        S::NewtypeStruct("N", b(x)),
        S::NewtypeVariant(b(x)),
        S::Seq(vec![x.clone()]),
        S::Tuple(vec![x.clone()]),
        S::TupleStruct(vec![x.clone()]),
        S::TupleVariant(vec![x.clone()]),
        S::Map(vec![(S::Str("k".into()), x.clone())]),
        S::Map(vec![(x.clone(), S::I8(1))]),
        S::Struct(vec![("a", x.clone())]),
        S::StructVariant(vec![("a", x.clone())]),
        S::NewtypeStruct(DUR_MARKER, b(x)),
        S::NewtypeStruct(TS_MARKER, b(x)),
        S::MapValueFirst(b(x)),
        S::MapEntries(vec![(S::Str("k".into()), x.clone())]),
        S::MapEntries(vec![(S::Str("k".into()), x.clone()), (S::Str("k".into()), S::I8(1))]),
        S::MapEntries(vec![(S::Str("k".into()), S::I8(1)), (S::Str("j".into()), S::I8(2)), (S::Str("k".into()), x.clone())]),
        S::Map(vec![(S::I8(1), S::I8(1)), (S::I64(1), x.clone())]),
        S::NamedStruct("Duration", vec![("secs", x.clone()), ("nanos", S::I64(0))]),
    ]
}

fn binary(x: &S, y: &S) -> Vec<S> {
    vec![
        S::Seq(vec![x.clone(), y.clone()]),
        S::Tuple(vec![y.clone(), x.clone()]),
        S::Map(vec![(S::I8(1), x.clone()), (S::Str("1".into()), y.clone())]),
        S::Map(vec![(S::Bool(true), y.clone()), (S::Char('t'), x.clone())]),
        S::Struct(vec![("a", x.clone()), ("b", y.clone())]),
        S::StructVariant(vec![("b", y.clone()), ("a", x.clone())]),
        S::TupleVariant(vec![x.clone(), y.clone()]),
        S::MapEntries(vec![(S::Str("a".into()), x.clone()), (S::Str("b".into()), y.clone())]),
        S::MapEntries(vec![(S::Bool(true), x.clone()), (S::Bool(true), y.clone())]),
    ]
}

pub fn run(run: &mut Run) {
    let l0 = leaves();
    let small = small_leaves();
    run.sub("depth0");
    for s in &l0 {
        if run.take() {
            check(run, 0, s);
        }
    }
    // the crate's own wrappers over boundary values, and marker newtypes with crafted payloads
    run.sub("time-wrappers");
    let mut wr: Vec<S> = vec![];
    for (s, n) in [(0i64, 0i32), (1, 0), (-1, 0), (0, 1), (0, -1), (-1, -500_000_000), (1, 999_999_999), (9223372036, 854775807), (-9223372036, -854775808), (9223372036, 854775808), (9223372036854775, 807_000_000), (-9223372036854775, -807_000_000), (9223372036854775, 0), (86400, 0)] {
        wr.push(S::Duration(s, n));
    }
    for (s, n, o) in [(0i64, 0u32, 0i32), (0, 0, 5 * 3600 + 45 * 60), (-1, 999_999_999, -12 * 3600), (253402300799, 999_999_999, 0), (253402300800, 0, 0), (-62135596800, 0, 0), (-62135596801, 0, 0), (1_700_000_000, 500_000_000, 14 * 3600), (8210266876799, 0, 0), (-8334601228800, 0, 0)] {
        wr.push(S::Timestamp(s, n, o));
    }
    for secs in [S::I64(0), S::I64(i64::MAX), S::I64(i64::MIN), S::I64(9223372036854775), S::U64(5), S::Str("x".into()), S::F64(1.0), S::None] {
        for nanos in [S::I64(0), S::I64(999_999_999), S::I64(i64::MAX), S::I64(-1), S::I32(5), S::U8(1), S::Str("n".into())] {
            for name in ["Duration", "Other"] {
                let payload = S::NamedStruct(name, vec![("secs", secs.clone()), ("nanos", nanos.clone())]);
                wr.push(S::NewtypeStruct(DUR_MARKER, Box::new(payload.clone())));
                wr.push(S::NewtypeStruct(TS_MARKER, Box::new(payload)));
            }
            wr.push(S::NewtypeStruct(DUR_MARKER, Box::new(S::NamedStruct("Duration", vec![("nanos", nanos.clone()), ("secs", secs.clone())]))));
            wr.push(S::NewtypeStruct(DUR_MARKER, Box::new(S::NamedStruct("Duration", vec![("secs", secs.clone()), ("other", nanos.clone())]))));
            wr.push(S::NewtypeStruct(DUR_MARKER, Box::new(S::NamedStruct("Duration", vec![("secs", secs.clone())]))));
        }
    }
    for t in ["1970-01-01T00:00:00Z", "2025-01-01T00:00:00+05:45", "", "not a time", "0000-01-01T00:00:00Z", "9999-12-31T23:59:60Z", "+10000-01-01T00:00:00Z", "1970-01-01"] {
        wr.push(S::NewtypeStruct(TS_MARKER, Box::new(S::Str(t.into()))));
        wr.push(S::NewtypeStruct(DUR_MARKER, Box::new(S::Str(t.into()))));
    }
    for s in &wr {
        if run.take() {
            check(run, 1, s);
        }
    }
    // depth 1: every unary compound over every leaf, every binary compound over every pair of leaves
    run.sub("depth1");
    let mut d1: Vec<S> = vec![];
    for x in &l0 {
        d1.extend(unary(x));
    }
    for x in &l0 {
        for y in &l0 {
            d1.extend(binary(x, y));
        }
    }
    for s in &d1 {
        if run.take() {
            check(run, 1, s);
        }
    }
    // depth 2: unary compounds over every depth-1 value; binary compounds with a small-alphabet sibling
    run.sub("depth2");
    let quick = run.quick();
    let d1u: Vec<&S> = if quick { d1.iter().step_by(5).collect() } else { d1.iter().collect() };
    for x in d1u.iter() {
        for s in unary(x) {
            if run.take() {
                check(run, 2, &s);
            }
        }
        if !quick {
            for y in &small {
                for s in binary(x, y) {
                    if run.take() {
                        check(run, 2, &s);
                    }
                }
            }
        }
    }
    // spines: every sequence of unary compounds to depth 4 (thorough 5) over the small leaf alphabet
    run.sub("spines");
    let depth = run.pick(3usize, 4usize);
    let nforms = unary(&S::Unit).len();
    let total = (nforms as u64).pow(depth as u32);
    for code in 0..total {
        for leaf in small.iter().take(if quick { 4 } else { 12 }) {
            if !run.take() {
                continue;
            }
            let mut c = code;
            let mut s = leaf.clone();
            for _ in 0..depth {
                s = unary(&s).swap_remove((c % nforms as u64) as usize);
                c /= nforms as u64;
            }
            check(run, depth, &s);
        }
    }
}

use crate::core::Run;
pub mod c01;
pub mod c15;
pub mod c16;
pub mod c17;
pub mod c18;
pub mod c19;
pub mod c20;
pub mod c20_sigs;
pub mod cal;
pub mod c02;
pub mod c03;
pub mod c04;
pub mod c05;
pub mod c06;
pub mod c07;
pub mod c08;
pub mod c09;
pub mod c10;
pub mod c11;
pub mod c12;
pub mod c13;
pub mod c14;

pub fn dispatch(prop: &str, run: &mut Run) {
    match prop {
        "CAL" => cal::run(run),
        "C20" => c20::run(run),
        "C15" => c15::run(run),
        "C16" => c16::run(run),
        "C17" => c17::run(run),
        "C18" => c18::run(run),
        "C19" => c19::run(run),
        "C01" => c01::run(run),
        "C02" => c02::run(run),
        "C03" => c03::run(run),
        "C04" => c04::run(run),
        "C05" => c05::run(run),
        "C06" => c06::run(run),
        "C07" => c07::run(run),
        "C08" => c08::run(run),
        "C09" => c09::run(run),
        "C10" => c10::run(run),
        "C11" => c11::run(run),
        "C12" => c12::run(run),
        "C13" => c13::run(run),
        "C14" => c14::run(run),
        _ => {
            eprintln!("unknown property {}", prop);
            std::process::exit(2);
        }
    }
}

//! C11 — variables resolve to the innermost binding and scopes never leak.
use crate::core::{guard, Run};
use crate::e2;
use crate::hosts;
use crate::mv::{classify_err, Out, EC, MV};
use crate::props::c03::{compare, exp_tag};
use crate::reval::{b, call, eval, Env, Host, E};
use crate::subj;
use cel_interpreter::{Context, ExecutionError, Program, Value};
use serde_json::json;
use std::collections::{BTreeMap, BTreeSet};

const NAMES: [&str; 3] = ["a", "b", "f"];

// ---------------------------------------------------------------------------
// (A) context operation histories (engine E2)

#[derive(Clone, Debug, PartialEq)]
enum Op {
    /// define name (index) through add_variable (false) or add_variable_from_value (true) with
    /// value number k of the pool {1, 1u, 2}: 1 and 1u are equal but distinguishable, 1 and 2 differ
    Define(usize, bool, usize),
    Push,
    Pop,
    /// register a host function under the name (root scope only)
    AddFn(usize),
}

fn show_ops(h: &[Op]) -> Vec<String> {
    h.iter()
        .map(|o| match o {
            Op::Define(n, false, k) => format!("add_variable({}, {})", NAMES[*n], POOL[*k]),
            Op::Define(n, true, k) => format!("add_variable_from_value({}, {})", NAMES[*n], POOL[*k]),
            Op::Push => "new_inner_scope".into(),
            Op::Pop => "drop_scope".into(),
            Op::AddFn(n) => format!("add_function({})", NAMES[*n]),
        })
        .collect()
}

/// 1 and 1u are equal but distinguishable, 1 and 2 differ, and null is a value like any other (a
/// name bound to null is bound)
const POOL: [&str; 4] = ["1", "1u", "2", "null"];

fn pool_value(k: usize) -> Value {
    match k {
        0 => Value::Int(1),
        1 => Value::UInt(1),
        2 => Value::Int(2),
        _ => Value::Null,
    }
}

fn depth_of(h: &[Op]) -> usize {
    let mut d = 0usize;
    for o in h {
        match o {
            Op::Push => d += 1,
            Op::Pop => d -= 1,
            _ => {}
        }
    }
    d
}

fn enabled(h: &[Op]) -> Vec<Op> {
    let d = depth_of(h);
    let mut v = vec![];
    for k in 0..4 {
        for n in 0..3 {
            // the two define APIs alternate over the pool so that the alphabet stays small
            v.push(Op::Define(n, (n + k) % 2 == 1, k));
        }
    }
    for n in 0..3 {
        v.push(Op::Define(n, n % 2 == 0, 0));
    }
    if d < 3 {
        v.push(Op::Push);
    }
    if d > 0 {
        v.push(Op::Pop);
    }
    if d == 0 {
        v.push(Op::AddFn(0));
        v.push(Op::AddFn(2));
    }
    v
}

struct Model {
    frames: Vec<BTreeMap<usize, usize>>,
    funcs: BTreeSet<usize>,
}

struct Progs {
    var: Vec<Program>,
    func: Vec<Program>,
}

/// Observations of one scope: for each name get_variable, program `n`, program `n(1)`.
fn observe(ctx: &Context, progs: &Progs) -> Result<Vec<String>, String> {
    let mut out = vec![];
    for n in 0..3 {
        let g = guard(|| ctx.get_variable(NAMES[n])).map_err(|p| format!("get_variable panicked: {}", p))?;
        out.push(match g {
            Ok(Value::Int(i)) => format!("{}", i),
            Ok(Value::UInt(i)) => format!("{}u", i),
            Ok(Value::Null) => "null".into(),
            Ok(other) => format!("?{:?}", other),
            Err(ExecutionError::UndeclaredReference(x)) if x.as_str() == NAMES[n] => "undeclared".into(),
            Err(e) => format!("err:{:?}", e),
        });
        let p = subj::exec(&progs.var[n], ctx);
        out.push(match p {
            Out::Val(MV::Int(i)) => format!("{}", i),
            Out::Val(MV::Uint(i)) => format!("{}u", i),
            Out::Val(MV::Null) => "null".into(),
            Out::Err(EC::Undeclared(x)) if x == NAMES[n] => "undeclared".into(),
            other => format!("?{}", other.show()),
        });
        let f = subj::exec(&progs.func[n], ctx);
        out.push(match f {
            Out::Val(MV::Int(i)) => format!("{}", i),
            Out::Err(EC::Undeclared(x)) if x == NAMES[n] => "undeclared".into(),
            other => format!("?{}", other.show()),
        });
    }
    Ok(out)
}

fn expect_obs(m: &Model, level: usize) -> Vec<String> {
    let mut out = vec![];
    for n in 0..3 {
        let mut v = None;
        for f in m.frames[..=level].iter().rev() {
            if let Some(x) = f.get(&n) {
                v = Some(*x);
                break;
            }
        }
        let s = v.map(|k| POOL[k].to_string()).unwrap_or("undeclared".into());
        out.push(s.clone());
        out.push(s);
        out.push(if m.funcs.contains(&n) { format!("{}", 1000 + n as i64 + 1) } else { "undeclared".into() });
    }
    out
}

/// Replays `ops[i..]` on the real context chain; `chain` holds raw pointers to the ancestors
/// (read-only while their children are alive). Returns the observations of every level at the
/// end of the history (innermost last).
fn drive(cur: &mut Context<'_>, chain: &mut Vec<*const Context<'static>>, ops: &[Op], i: &mut usize, progs: &Progs) -> Result<Option<Vec<Vec<String>>>, String> {
    while *i < ops.len() {
        let op = ops[*i].clone();
        *i += 1;
        match op {
            Op::Define(n, false, k) => {
                guard(|| cur.add_variable(NAMES[n], pool_value(k))).map_err(|p| format!("add_variable panicked: {}", p))?.map_err(|e| format!("add_variable failed: {}", e))?;
            }
            Op::Define(n, true, k) => {
                guard(|| cur.add_variable_from_value(NAMES[n], pool_value(k))).map_err(|p| format!("add_variable_from_value panicked: {}", p))?;
            }
            Op::AddFn(n) => {
                let ret = 1000 + n as i64;
                cur.add_function(NAMES[n], move |x: i64| x + ret);
            }
            Op::Push => {
                let p = cur as *const Context<'_> as *const Context<'static>;
                chain.push(p);
                let done = {
                    let mut child = cur.new_inner_scope();
                    drive(&mut child, chain, ops, i, progs)?
                };
                chain.pop();
                if done.is_some() {
                    return Ok(done);
                }
                // the child was dropped by a Pop; continue in this scope
            }
            Op::Pop => return Ok(None),
        }
    }
    // end of history: observe every level, outermost first
    let mut all = vec![];
    for p in chain.iter() {
        let c: &Context = unsafe { &**p };
        all.push(observe(c, progs)?);
    }
    all.push(observe(cur, progs)?);
    Ok(Some(all))
}

fn model_of(ops: &[Op]) -> Model {
    let mut m = Model { frames: vec![BTreeMap::new()], funcs: BTreeSet::new() };
    for op in ops.iter() {
        match op {
            Op::Define(n, _, k) => {
                m.frames.last_mut().unwrap().insert(*n, *k);
            }
            Op::Push => m.frames.push(BTreeMap::new()),
            Op::Pop => {
                m.frames.pop();
            }
            Op::AddFn(n) => {
                m.funcs.insert(*n);
            }
        }
    }
    m
}

/// canonical key: the exact frames (values come from a fixed pool) + function set
fn canon(m: &Model) -> String {
    format!("{:?}|{:?}", m.frames, m.funcs)
}

fn part_a(run: &mut Run) {
    let max_depth = run.pick(6usize, 8usize);
    let progs = Progs {
        var: NAMES.iter().map(|n| Program::compile(n).unwrap()).collect(),
        func: NAMES.iter().map(|n| Program::compile(&format!("{}(1)", n)).unwrap()).collect(),
    };
    run.sub("context-histories");
    let mut step = |run: &mut Run, h: &[Op]| -> Option<String> {
        let m = model_of(h);
        let mut root = Context::default();
        let mut chain = vec![];
        let mut i = 0;
        let r = drive(&mut root, &mut chain, h, &mut i, &progs);
        run.trans(h.len() as u64 + 9 * m.frames.len() as u64);
        run.validated();
        if h.iter().any(|o| matches!(o, Op::Push)) {
            run.nontrivial();
        }
        let case = || json!({"history": show_ops(h)});
        match r {
            Err(e) => {
                run.fail("C11|ctx|machinery-or-panic", format!("history {:?}: {}", show_ops(h), e), case());
                None
            }
            Ok(None) => {
                run.fail("C11|ctx|driver", "history ended inside a popped scope".into(), case());
                None
            }
            Ok(Some(obs)) => {
                let mut ok = true;
                for (lvl, o) in obs.iter().enumerate() {
                    let want = expect_obs(&m, lvl);
                    if *o != want {
                        ok = false;
                        let which = (0..9).find(|k| o[*k] != want[*k]).unwrap_or(0);
                        let what = ["get_variable", "program-var", "program-fn"][which % 3];
                        run.fail(
                            &format!("C11|ctx|{}|level{}-of-{}", what, lvl, obs.len() - 1),
                            format!("after {:?}: at scope level {} (innermost is {}) name `{}` via {} gives {} but the scope-stack model says {}", show_ops(h), lvl, obs.len() - 1, NAMES[which / 3], what, o[which], want[which]),
                            case(),
                        );
                        break;
                    }
                }
                run.class(&format!("ctx:depth{}:{}", obs.len() - 1, if ok { "agree" } else { "DIFF" }), case);
                if ok {
                    Some(canon(&m))
                } else {
                    None
                }
            }
        }
    };
    let st = e2::explore(run, max_depth, 2, &enabled, &mut step);
    run.extra_add("sum_e2_histories", st.histories);
    run.extra_add("sum_e2_distinct_canonical_states", st.distinct_states);
    run.extra_add("sum_e2_pruned_duplicates", st.pruned_duplicates);
    run.rep.extra.insert("max_e2_depth".into(), json!(st.max_depth));
}

// ---------------------------------------------------------------------------
// (B) programs nesting macros whose iteration variables shadow context names

const FORMS: [&str; 7] = ["map", "filter", "all", "exists", "exists_one", "map3", "existsOne"];

fn nm(i: usize) -> E {
    E::Var(NAMES[i].to_string())
}

/// all int-valued bodies with `d` further macro levels available
fn bodies(d: usize, inner_forms: &[&'static str], arith_after: bool) -> Vec<E> {
    let mut v: Vec<E> = vec![];
    for n in 0..3 {
        v.push(nm(n));
    }
    if arith_after {
        for n in 0..3 {
            v.push(call("f", vec![nm(n)]));
            v.push(call("a", vec![nm(n)]));
        }
    }
    if d > 0 {
        let inner = bodies(d - 1, inner_forms, arith_after);
        let range = E::Lit(MV::List(vec![MV::Int(30 + d as i64)]));
        for form in inner_forms {
            for var in 0..3 {
                for bd in inner.iter() {
                    for after in 0..3 {
                        let m = macro_of(form, range.clone(), NAMES[var], bd.clone());
                        if arith_after {
                            v.push(E::Bin("+", b(flow(form, m.clone())), b(nm(after))));
                            // ... and with the name read before the inner macro
                            v.push(E::Bin("+", b(nm(after)), b(flow(form, m))));
                        } else if after == 0 {
                            // outer values of another numeric type: no arithmetic with them
                            v.push(flow(form, m));
                        }
                    }
                }
            }
        }
    }
    v
}

fn macro_of(form: &'static str, range: E, var: &str, body: E) -> E {
    let gt = |e: E| E::Bin(">", b(e), b(E::Lit(MV::Int(15))));
    match form {
        "map" => E::Macro("map", b(range), var.into(), vec![body]),
        "map3" => E::Macro("map", b(range), var.into(), vec![gt(body.clone()), body]),
        "filter" => E::Macro("filter", b(range), var.into(), vec![gt(body)]),
        "all" => E::Macro("all", b(range), var.into(), vec![gt(body)]),
        "exists" => E::Macro("exists", b(range), var.into(), vec![gt(body)]),
        "exists_one" => E::Macro("exists_one", b(range), var.into(), vec![gt(body)]),
        _ => E::Macro("existsOne", b(range), var.into(), vec![gt(body)]),
    }
}

/// turn the macro's value into an int so that it flows into the surrounding arithmetic
fn flow(form: &str, m: E) -> E {
    match form {
        "map" | "map3" | "filter" => E::Bin("+", b(E::Bin("*", b(call("size", vec![m.clone()])), b(E::Lit(MV::Int(1000))))), b(E::Index(b(m), b(E::Lit(MV::Int(0)))))),
        _ => E::Cond(b(m), b(E::Lit(MV::Int(5000))), b(E::Lit(MV::Int(7000)))),
    }
}

fn part_b(run: &mut Run) {
    part_b_profile(run, "ints", [MV::Int(1), MV::Int(2), MV::Int(3)]);
    // outer bindings that are numerically EQUAL to the elements the macros iterate over but of
    // another numeric type: an implementation that skips "redundant" shadowing is visible here
    part_b_profile(run, "twins", [MV::f(10.0), MV::Uint(20), MV::Uint(31)]);
}

fn part_b_profile(run: &mut Run, profile: &str, vals: [MV; 3]) {
    let mut env = Env::new();
    env.set("a", vals[0].clone());
    env.set("b", vals[1].clone());
    env.set("f", vals[2].clone());
    env.hosts.insert("f".into(), Host::Typed(vec!["int"]));
    env.hosts.insert("a".into(), Host::Typed(vec!["int"]));
    let log = hosts::new_log();
    let mut ctx = hosts::context_for(&env, &log);
    // the model's Typed host returns its first argument: so do these
    ctx.add_function("f", |x: i64| x);
    ctx.add_function("a", |x: i64| x);
    let quick = run.quick();
    let inner_forms: Vec<&'static str> = if quick { vec!["map", "exists", "filter"] } else { vec!["map", "exists", "filter", "all", "map3"] };
    let depth = run.pick(1usize, 2usize);
    let arith = profile == "ints";
    let inner = bodies(depth, &inner_forms, arith);
    run.rep.extra.insert("inner_bodies".into(), json!(inner.len()));
    run.sub(&format!("macro-programs-{}", profile));
    let range = E::Lit(MV::List(vec![MV::Int(10), MV::Int(20)]));
    for form in FORMS.iter() {
        for var in 0..3 {
            for bd in inner.iter() {
                for after in 0..3 {
                    if !run.take() {
                        continue;
                    }
                    // R.FORM(V, BODY) flowing into `+ after`: the name after the macro must see the outer binding
                    let m = macro_of(form, range.clone(), NAMES[var], bd.clone());
                    let e = if arith {
                        E::List(vec![nm(after), E::Bin("+", b(flow(form, m)), b(nm(after))), nm(var)])
                    } else {
                        // the macro's own value, then the names as seen after it
                        E::List(vec![m, nm(after), nm(var)])
                    };
                    let src = e.src();
                    env.log.clear();
                    let exp = eval(&e, &mut env);
                    let got = subj::run_src(&src, &ctx);
                    run.trans(2);
                    let case = || json!({"src": src, "expected": format!("{:?}", exp), "got": got.show()});
                    run.class(&format!("prog-{}:{}:{}:{}", profile, form, exp_tag(&exp), got.tag()), case);
                    match compare(&exp, &got) {
                        None => {}
                        Some(ok) => {
                            run.validated();
                            run.nontrivial();
                            if !ok {
                                run.fail(
                                    &format!("C11|prog-{}|{}|expect={}|got={}", profile, form, exp_tag(&exp), got.tag()),
                                    format!("`{}` : lexical scoping gives {:?}, implementation gave {}", src, exp, got.show()),
                                    case(),
                                );
                            }
                        }
                    }
                    // the context is untouched by the macro variables
                    for k in 0..3usize {
                        match ctx.get_variable(NAMES[k]) {
                            Ok(v) if MV::from_value(&v) == vals[k] => {}
                            other => run.fail("C11|prog|context-variable-changed", format!("after `{}` the context variable {} is {:?}", src, NAMES[k], other), json!({"src": src})),
                        }
                    }
                }
            }
        }
    }
    // ---- shadow chains: 3 and 4 `map` levels, every assignment of the three names to the levels,
    //      the innermost body reads all three names (each level iterates a different constant, so
    //      the value read identifies the binding level)
    run.sub(&format!("shadow-chains-{}", profile));
    // (one level may iterate over `null`: a name bound to null is bound)
    for d in 2..=4usize {
        for code in 0..3usize.pow(d as u32) {
          for null_level in 0..=d {
            if !run.take() {
                continue;
            }
            let mut e = E::List(vec![nm(0), nm(1), nm(2)]);
            let mut c = code;
            for lvl in (0..d).rev() {
                let var = c % 3;
                c /= 3;
                let range = E::Lit(MV::List(vec![if lvl == null_level { MV::Null } else { MV::Int(100 * (lvl as i64 + 1)) }]));
                e = macro_of("map", range, NAMES[var], e);
            }
            let e = E::List(vec![e, nm(0), nm(1), nm(2)]);
            let src = e.src();
            env.log.clear();
            let exp = eval(&e, &mut env);
            let got = subj::run_src(&src, &ctx);
            run.trans(2);
            let case = || json!({"src": src, "expected": format!("{:?}", exp), "got": got.show()});
            run.class(&format!("chain-{}:{}:{}:{}", profile, d, exp_tag(&exp), got.tag()), case);
            if let Some(ok) = compare(&exp, &got) {
                run.validated();
                run.nontrivial();
                if !ok {
                    run.fail(
                        &format!("C11|chain-{}|depth{}|expect={}|got={}", profile, d, exp_tag(&exp), got.tag()),
                        format!("`{}` : lexical scoping gives {:?}, implementation gave {}", src, exp, got.show()),
                        case(),
                    );
                }
            }
          }
        }
    }
    // ---- chained scopes: a list-valued macro as the range of another macro, every choice of the
    //      two iteration variables and of one further name read in each body (the two scopes are
    //      siblings: a name in the first body never refers to the second macro's variable)
    if arith {
        run.sub(&format!("chained-scopes-{}", profile));
        let range = E::Lit(MV::List(vec![MV::Int(10), MV::Int(20), MV::Int(30)]));
        for f1 in ["map", "filter"] {
            for v1 in 0..3 {
                for n1 in 0..3 {
                    for f2 in FORMS.iter() {
                        for v2 in 0..3 {
                            for n2 in 0..3 {
                                if !run.take() {
                                    continue;
                                }
                                let body1 = E::Bin("+", b(nm(v1)), b(nm(n1)));
                                let first = macro_of(f1, range.clone(), NAMES[v1], body1);
                                let body2 = E::Bin("+", b(nm(v2)), b(nm(n2)));
                                let second = macro_of(f2, first, NAMES[v2], body2);
                                let e = E::List(vec![second, nm(0), nm(1), nm(2)]);
                                let src = e.src();
                                env.log.clear();
                                let exp = eval(&e, &mut env);
                                let got = subj::run_src(&src, &ctx);
                                run.trans(2);
                                let case = || json!({"src": src, "expected": format!("{:?}", exp), "got": got.show()});
                                run.class(&format!("chained-{}:{}:{}:{}", profile, f2, exp_tag(&exp), got.tag()), case);
                                if let Some(ok) = compare(&exp, &got) {
                                    run.validated();
                                    run.nontrivial();
                                    if !ok {
                                        run.fail(
                                            &format!("C11|chained-{}|{}-{}|expect={}|got={}", profile, f1, f2, exp_tag(&exp), got.tag()),
                                            format!("`{}` : lexical scoping gives {:?}, implementation gave {}", src, exp, got.show()),
                                            case(),
                                        );
                                    }
                                }
                            }
                        }
                    }
                }
            }
        }
    }
    let _ = classify_err;
}

pub fn run(run: &mut Run) {
    part_a(run);
    part_b(run);
}

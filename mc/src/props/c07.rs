//! C07 — each operand is evaluated at most once, left to right, in bounded work.
use crate::core::{guard, with_budget, Run};
use crate::hosts;
use crate::mv::MV;
use crate::reval::{b, call, eval, mcall, Env, Ev, Host, E};
use cel_interpreter::extractors::{Arguments, This};
use cel_interpreter::{Context, ExecutionError, Program, Value};
use cel_parser::ast::{EntryExpr, Expr, IdedExpr};
use serde_json::json;
use std::collections::HashMap;

/// A template: number of holes, whether its value is an int, and the builder.
struct Tpl {
    name: &'static str,
    holes: usize,
    int_valued: bool,
    build: Box<dyn Fn(Vec<E>) -> E>,
}

fn li(i: i64) -> E {
    E::Lit(MV::Int(i))
}
fn x() -> E {
    E::Var("x".into())
}
fn gt0(e: E) -> E {
    E::Bin(">", b(e), b(li(0)))
}

fn templates() -> Vec<Tpl> {
    let mut v: Vec<Tpl> = vec![];
    let mut t = |name: &'static str, holes: usize, int_valued: bool, f: Box<dyn Fn(Vec<E>) -> E>| v.push(Tpl { name, holes, int_valued, build: f });
    for op in ["+", "-", "*", "/", "%"] {
        t(op, 2, true, Box::new(move |h| E::Bin(op, b(h[0].clone()), b(h[1].clone()))));
    }
    for op in ["<", "==", "!="] {
        t(op, 2, false, Box::new(move |h| E::Bin(op, b(h[0].clone()), b(h[1].clone()))));
    }
    t("in-list", 3, false, Box::new(|h| E::Bin("in", b(h[0].clone()), b(E::List(vec![h[1].clone(), h[2].clone()])))));
    t("&&", 2, false, Box::new(|h| E::Bin("&&", b(gt0(h[0].clone())), b(gt0(h[1].clone())))));
    t("||", 2, false, Box::new(|h| E::Bin("||", b(gt0(h[0].clone())), b(gt0(h[1].clone())))));
    t("?:", 3, true, Box::new(|h| E::Cond(b(gt0(h[0].clone())), b(h[1].clone()), b(h[2].clone()))));
    t("!", 1, false, Box::new(|h| E::Un("!", b(gt0(h[0].clone())))));
    t("neg", 1, true, Box::new(|h| E::Un("-", b(h[0].clone()))));
    t("list3", 3, false, Box::new(|h| E::List(h)));
    t("map2", 4, false, Box::new(|h| E::Map(vec![(h[0].clone(), h[1].clone()), (E::Bin("+", b(h[2].clone()), b(li(100))), h[3].clone())])));
    t("index", 3, true, Box::new(|h| E::Index(b(E::List(vec![h[0].clone(), h[1].clone()])), b(h[2].clone()))));
    t("map-index", 2, true, Box::new(|h| E::Index(b(E::Map(vec![(li(1), h[0].clone())])), b(h[1].clone()))));
    t("select", 1, true, Box::new(|h| E::Select(b(E::Map(vec![(E::Lit(MV::s("a")), h[0].clone())])), "a".into())));
    t("has", 1, false, Box::new(|h| E::Has(b(E::Map(vec![(E::Lit(MV::s("a")), h[0].clone())])), "a".into())));
    // multi-field paths: the root of the path is evaluated once however long the path is
    t("has2", 1, false, Box::new(|h| E::Has(b(E::Select(b(E::Map(vec![(E::Lit(MV::s("a")), E::Map(vec![(E::Lit(MV::s("b")), h[0].clone())]))])), "a".into())), "b".into())));
    t("has2-absent", 1, false, Box::new(|h| E::Has(b(E::Select(b(E::Map(vec![(E::Lit(MV::s("a")), E::Map(vec![(E::Lit(MV::s("b")), h[0].clone())]))])), "a".into())), "c".into())));
    t("has3", 2, false, Box::new(|h| {
        let inner = E::Map(vec![(E::Lit(MV::s("c")), h[0].clone())]);
        let mid = E::Map(vec![(E::Lit(MV::s("b")), inner), (E::Lit(MV::s("d")), h[1].clone())]);
        let root = E::Map(vec![(E::Lit(MV::s("a")), mid)]);
        E::Has(b(E::Select(b(E::Select(b(root), "a".into())), "b".into())), "c".into())
    }));
    t("select2", 1, true, Box::new(|h| E::Select(b(E::Select(b(E::Map(vec![(E::Lit(MV::s("a")), E::Map(vec![(E::Lit(MV::s("b")), h[0].clone())]))])), "a".into())), "b".into())));
    // built-ins, global style
    t("size()", 2, true, Box::new(|h| call("size", vec![E::List(h)])));
    t("max2", 2, true, Box::new(|h| call("max", h)));
    t("max3", 3, true, Box::new(|h| call("max", h)));
    t("min4", 4, true, Box::new(|h| call("min", h)));
    t("int()", 1, true, Box::new(|h| call("int", h)));
    t("uint()", 1, false, Box::new(|h| call("uint", h)));
    t("double()", 1, false, Box::new(|h| call("double", h)));
    t("string()", 1, false, Box::new(|h| call("string", h)));
    t("contains()", 3, false, Box::new(|h| call("contains", vec![E::List(vec![h[0].clone(), h[1].clone()]), h[2].clone()])));
    t("startsWith()", 2, false, Box::new(|h| call("startsWith", vec![call("string", vec![h[0].clone()]), call("string", vec![h[1].clone()])])));
    // built-ins, receiver style
    t(".contains", 3, false, Box::new(|h| mcall(E::List(vec![h[0].clone(), h[1].clone()]), "contains", vec![h[2].clone()])));
    t(".startsWith", 2, false, Box::new(|h| mcall(call("string", vec![h[0].clone()]), "startsWith", vec![call("string", vec![h[1].clone()])])));
    t(".endsWith", 2, false, Box::new(|h| mcall(mcall(h[0].clone(), "string", vec![]), "endsWith", vec![mcall(h[1].clone(), "string", vec![])])));
    t(".matches", 2, false, Box::new(|h| mcall(call("string", vec![h[0].clone()]), "matches", vec![call("string", vec![h[1].clone()])])));
    t(".size", 1, true, Box::new(|h| mcall(E::List(h), "size", vec![])));
    t(".int", 1, true, Box::new(|h| mcall(h[0].clone(), "int", vec![])));
    // host functions with each extractor style, 0..4 arguments, both call styles
    t("h0", 0, true, Box::new(|_| call("h0", vec![])));
    t("hA1", 1, true, Box::new(|h| call("hA", h)));
    t("hA3", 3, true, Box::new(|h| call("hA", h)));
    t("hA4", 4, true, Box::new(|h| call("hA", h)));
    t(".hA2", 3, true, Box::new(|h| mcall(h[0].clone(), "hA", vec![h[1].clone(), h[2].clone()])));
    t("hp2", 2, true, Box::new(|h| call("hp2", h)));
    t("hp4", 4, true, Box::new(|h| call("hp4", h)));
    t(".hp2", 3, true, Box::new(|h| {
        // receiver is evaluated, then the two positional parameters
        mcall(h[0].clone(), "hp2", vec![h[1].clone(), h[2].clone()])
    }));
    t("hv2", 2, true, Box::new(|h| call("hv2", h)));
    t(".ht1", 2, true, Box::new(|h| mcall(h[0].clone(), "ht", vec![h[1].clone()])));
    // host functions whose names start with `_` (operator names start with `_`, `!`, `-`, `@`)
    t("_h1", 1, true, Box::new(|h| call("_h", h)));
    t("_h2", 2, true, Box::new(|h| call("_h", h)));
    t("._h1", 2, true, Box::new(|h| mcall(h[0].clone(), "_h", vec![h[1].clone()])));
    t("_h_chain", 1, true, Box::new(|h| call("_h", vec![call("_h", vec![call("_h", h)])])));
    // This<T> behind and between positional parameters (function style: it takes the next argument)
    t("hpt3", 3, true, Box::new(|h| call("hpt", h)));
    t("ht2", 2, true, Box::new(|h| call("ht", h)));
    // macros: range and body
    t("map", 3, false, Box::new(|h| E::Macro("map", b(E::List(vec![h[0].clone(), h[1].clone()])), "x".into(), vec![E::Bin("+", b(x()), b(h[2].clone()))])));
    t("all", 3, false, Box::new(|h| E::Macro("all", b(E::List(vec![h[0].clone(), h[1].clone()])), "x".into(), vec![E::Bin("<=", b(h[2].clone()), b(E::Bin("+", b(x()), b(li(5)))))])));
    t("exists", 3, false, Box::new(|h| E::Macro("exists", b(E::List(vec![h[0].clone(), h[1].clone()])), "x".into(), vec![E::Bin(">", b(h[2].clone()), b(E::Bin("+", b(x()), b(li(5)))))])));
    t("exists_one", 3, false, Box::new(|h| E::Macro("exists_one", b(E::List(vec![h[0].clone(), h[1].clone()])), "x".into(), vec![E::Bin("==", b(h[2].clone()), b(x()))])));
    t("filter", 3, false, Box::new(|h| E::Macro("filter", b(E::List(vec![h[0].clone(), h[1].clone()])), "x".into(), vec![gt0(h[2].clone())])));
    t("map3", 4, false, Box::new(|h| E::Macro("map", b(E::List(vec![h[0].clone(), h[1].clone()])), "x".into(), vec![gt0(h[2].clone()), E::Bin("*", b(x()), b(h[3].clone()))])));
    // int-valued macro forms, so that macros also appear as inner operands at the second level
    t("size(map)", 2, true, Box::new(|h| call("size", vec![E::Macro("map", b(E::List(vec![h[0].clone(), li(5)])), "x".into(), vec![E::Bin("+", b(x()), b(h[1].clone()))])])));
    t("exists?1:0", 2, true, Box::new(|h| E::Cond(b(E::Macro("exists", b(E::List(vec![h[0].clone(), li(5)])), "x".into(), vec![E::Bin("==", b(x()), b(h[1].clone()))])), b(li(1)), b(li(0)))));
    t("filter[0]", 2, true, Box::new(|h| E::Index(b(E::Macro("filter", b(E::List(vec![li(3), h[0].clone()])), "x".into(), vec![E::Bin(">=", b(x()), b(h[1].clone()))])), b(li(0)))));
    v
}

/// Host functions whose signature puts positional parameters in front of the `Arguments` extractor
/// (which yields all arguments). Kept out of `templates()` so that they are explored in their own
/// sub-space with their own failure keys.
fn mixed_templates() -> Vec<Tpl> {
    let mut v: Vec<Tpl> = vec![];
    let mut t = |name: &'static str, holes: usize, f: Box<dyn Fn(Vec<E>) -> E>| v.push(Tpl { name, holes, int_valued: true, build: f });
    t("hva1", 1, Box::new(|h| call("hva", h)));
    t("hva2", 2, Box::new(|h| call("hva", h)));
    t("hva3", 3, Box::new(|h| call("hva", h)));
    t(".hva2", 3, Box::new(|h| mcall(h[0].clone(), "hva", vec![h[1].clone(), h[2].clone()])));
    t("hpa2", 2, Box::new(|h| call("hpa", h)));
    t("hpa3", 3, Box::new(|h| call("hpa", h)));
    t("hav2", 2, Box::new(|h| call("hav", h)));
    v
}

fn wrap(id: &mut i64, e: E) -> E {
    *id += 1;
    call("t", vec![li(*id), e])
}

pub fn model_env() -> Env {
    let mut env = Env::new();
    env.set("i", MV::Int(1));
    env.hosts.insert("t".into(), Host::Wrap);
    env.hosts.insert("h0".into(), Host::Const(MV::Int(7)));
    env.hosts.insert("hA".into(), Host::Ident);
    env.hosts.insert("hv2".into(), Host::Typed(vec!["any", "any"]));
    env.hosts.insert("hp2".into(), Host::Typed(vec!["int", "int"]));
    env.hosts.insert("hp4".into(), Host::Typed(vec!["int", "int", "int", "int"]));
    env.hosts.insert("ht".into(), Host::Ident);
    env.hosts.insert("_h".into(), Host::Ident);
    env.hosts.insert("hpt".into(), Host::Typed(vec!["any", "any", "any"]));
    env.hosts.insert("hva".into(), Host::Typed(vec!["any", "args"]));
    env.hosts.insert("hpa".into(), Host::Typed(vec!["int", "int", "args"]));
    env.hosts.insert("hav".into(), Host::Typed(vec!["args", "any"]));
    env
}

pub fn subject_ctx(env: &Env, log: &hosts::Log) -> Context<'static> {
    let mut ctx = hosts::context_for(env, log);
    let l = log.clone();
    ctx.add_function("hp2", move |a: i64, c: i64| -> Result<Value, ExecutionError> {
        l.lock().unwrap().push(Ev::Call("hp2".into(), vec![MV::Int(a), MV::Int(c)]));
        Ok(Value::Int(a))
    });
    let l = log.clone();
    ctx.add_function("hp4", move |a: i64, c: i64, d: i64, e: i64| -> Result<Value, ExecutionError> {
        l.lock().unwrap().push(Ev::Call("hp4".into(), vec![MV::Int(a), MV::Int(c), MV::Int(d), MV::Int(e)]));
        Ok(Value::Int(a))
    });
    let l = log.clone();
    ctx.add_function("hv2", move |a: Value, c: Value| -> Result<Value, ExecutionError> {
        l.lock().unwrap().push(Ev::Call("hv2".into(), vec![MV::from_value(&a), MV::from_value(&c)]));
        Ok(a)
    });
    let l = log.clone();
    ctx.add_function("hpt", move |a: Value, This(this): This<Value>, c: Value| -> Result<Value, ExecutionError> {
        l.lock().unwrap().push(Ev::Call("hpt".into(), vec![MV::from_value(&a), MV::from_value(&this), MV::from_value(&c)]));
        Ok(a)
    });
    let l = log.clone();
    ctx.add_function("hva", move |a: Value, Arguments(rest): Arguments| -> Result<Value, ExecutionError> {
        l.lock().unwrap().push(Ev::Call("hva".into(), vec![MV::from_value(&a), MV::List(rest.iter().map(MV::from_value).collect())]));
        Ok(a)
    });
    let l = log.clone();
    ctx.add_function("hpa", move |a: i64, c: i64, Arguments(rest): Arguments| -> Result<Value, ExecutionError> {
        l.lock().unwrap().push(Ev::Call("hpa".into(), vec![MV::Int(a), MV::Int(c), MV::List(rest.iter().map(MV::from_value).collect())]));
        Ok(Value::Int(a))
    });
    let l = log.clone();
    ctx.add_function("hav", move |Arguments(all): Arguments, a: Value| -> Result<Value, ExecutionError> {
        l.lock().unwrap().push(Ev::Call("hav".into(), vec![MV::List(all.iter().map(MV::from_value).collect()), MV::from_value(&a)]));
        Ok(Value::List(all))
    });
    // `ht` uses the This extractor: receiver if present, otherwise the first argument
    let l = log.clone();
    ctx.add_function("ht", move |This(this): This<Value>, a: Value| -> Result<Value, ExecutionError> {
        l.lock().unwrap().push(Ev::Call("ht".into(), vec![MV::from_value(&this), MV::from_value(&a)]));
        Ok(this)
    });
    ctx
}

// ---------------------------------------------------------------------------
// node-entry monitor

struct NodeInfo {
    parent: u64,
    /// how many times this node may be entered per entry of its parent
    mult: u64,
}

fn index_ast(e: &IdedExpr, parent: u64, mult: u64, out: &mut HashMap<u64, NodeInfo>, max_range: u64) {
    if e.id != 0 {
        out.insert(e.id, NodeInfo { parent, mult });
    }
    let me = if e.id != 0 { e.id } else { parent };
    match &e.expr {
        Expr::Call(c) => {
            if let Some(t) = &c.target {
                index_ast(t, me, 1, out, max_range);
            }
            for a in &c.args {
                index_ast(a, me, 1, out, max_range);
            }
        }
        Expr::Select(s) => index_ast(&s.operand, me, 1, out, max_range),
        Expr::List(l) => {
            for a in &l.elements {
                index_ast(a, me, 1, out, max_range);
            }
        }
        Expr::Map(m) => {
            for en in &m.entries {
                if let EntryExpr::MapEntry(me2) = &en.expr {
                    index_ast(&me2.key, me, 1, out, max_range);
                    index_ast(&me2.value, me, 1, out, max_range);
                }
            }
        }
        Expr::Comprehension(c) => {
            index_ast(&c.iter_range, me, 1, out, max_range);
            index_ast(&c.accu_init, me, 1, out, max_range);
            index_ast(&c.loop_cond, me, max_range + 1, out, max_range);
            index_ast(&c.loop_step, me, max_range, out, max_range);
            index_ast(&c.result, me, 1, out, max_range);
        }
        _ => {}
    }
}

fn count_nodes(e: &IdedExpr) -> u64 {
    1 + match &e.expr {
        Expr::Call(c) => c.target.as_ref().map(|t| count_nodes(t)).unwrap_or(0) + c.args.iter().map(count_nodes).sum::<u64>(),
        Expr::Select(s) => count_nodes(&s.operand),
        Expr::List(l) => l.elements.iter().map(count_nodes).sum(),
        Expr::Map(m) => m
            .entries
            .iter()
            .map(|en| match &en.expr {
                EntryExpr::MapEntry(me) => count_nodes(&me.key) + count_nodes(&me.value),
                EntryExpr::StructField(sf) => count_nodes(&sf.value),
            })
            .sum(),
        Expr::Comprehension(c) => count_nodes(&c.iter_range) + count_nodes(&c.accu_init) + count_nodes(&c.loop_cond) + count_nodes(&c.loop_step) + count_nodes(&c.result),
        _ => 0,
    }
}

fn comprehension_depth(e: &IdedExpr) -> u32 {
    match &e.expr {
        Expr::Call(c) => c.target.iter().map(|t| comprehension_depth(t)).chain(c.args.iter().map(comprehension_depth)).max().unwrap_or(0),
        Expr::Select(s) => comprehension_depth(&s.operand),
        Expr::List(l) => l.elements.iter().map(comprehension_depth).max().unwrap_or(0),
        Expr::Map(m) => m
            .entries
            .iter()
            .map(|en| match &en.expr {
                EntryExpr::MapEntry(me) => comprehension_depth(&me.key).max(comprehension_depth(&me.value)),
                EntryExpr::StructField(sf) => comprehension_depth(&sf.value),
            })
            .max()
            .unwrap_or(0),
        Expr::Comprehension(c) => {
            1 + [&c.iter_range, &c.accu_init, &c.loop_cond, &c.loop_step, &c.result].iter().map(|x| comprehension_depth(x)).max().unwrap_or(0)
        }
        _ => 0,
    }
}

/// Runs the program with the per-node entry counter and the step budget.
/// Returns (entries per node, steps, budget exceeded, panic message if any)
fn monitored_run(p: &Program, ctx: &Context, budget: u64) -> (HashMap<u64, u64>, u64, bool, Option<String>) {
    use cel_interpreter::verif::{set_observer, Event};
    use std::cell::RefCell;
    use std::rc::Rc;
    let counts: Rc<RefCell<HashMap<u64, u64>>> = Rc::new(RefCell::new(HashMap::new()));
    let c2 = counts.clone();
    let steps = Rc::new(std::cell::Cell::new(0u64));
    let s2 = steps.clone();
    let over = Rc::new(std::cell::Cell::new(false));
    let o2 = over.clone();
    let prev = set_observer(Some(Box::new(move |ev| {
        if let Event::Enter(id) = ev {
            *c2.borrow_mut().entry(id).or_insert(0) += 1;
            s2.set(s2.get() + 1);
            if s2.get() > budget {
                o2.set(true);
                std::panic::panic_any(crate::core::BudgetExceeded);
            }
        }
    })));
    let r = guard(|| p.execute(ctx));
    set_observer(prev);
    let panic = match r {
        Err(m) if !over.get() => Some(m),
        _ => None,
    };
    let c = counts.borrow().clone();
    (c, steps.get(), over.get(), panic)
}

const MAX_RANGE: u64 = 3;

fn check(run: &mut Run, family: &str, tname: &str, e: &E, env: &mut Env, ctx: &Context, log: &hosts::Log) {
    let src = e.src();
    env.log.clear();
    let _ = eval(e, env);
    let expected: Vec<Ev> = env.log.clone();
    let case = || json!({"src": src});
    let prog = match guard(|| Program::compile(&src)) {
        Ok(Ok(p)) => p,
        other => {
            run.fail(&format!("C07|{}|does-not-compile", family), format!("`{}`: {:?}", src, other.map(|r| r.map(|_| ()).map_err(|e| e.to_string()))), case());
            return;
        }
    };
    let ast = cel_parser::Parser::new().parse(&src).expect("parses");
    let nodes = count_nodes(&ast);
    let budget = nodes * (MAX_RANGE + 1).pow(comprehension_depth(&ast)) * 4;
    log.lock().unwrap().clear();
    let (counts, steps, over, panic) = monitored_run(&prog, ctx, budget);
    run.trans(2);
    run.validated();
    let got: Vec<Ev> = log.lock().unwrap().clone();
    let wrapped = expected.iter().filter(|e| matches!(e, Ev::Enter(_))).count();
    if wrapped >= 2 {
        run.nontrivial();
    }
    let mut class = "same-log";
    if let Some(p) = panic {
        class = "panic";
        run.fail(&format!("C07|{}|{}|panic", family, tname), format!("`{}` panicked: {}", src, p), case());
    } else if over {
        class = "budget";
        run.fail(
            &format!("C07|{}|{}|step-budget-exceeded", family, tname),
            format!("`{}`: more than {} evaluation steps for {} nodes (unbounded re-evaluation)", src, budget, nodes),
            case(),
        );
    } else {
        if got != expected {
            class = "log-differs";
            // classify: repeated evaluation or order
            let mut seen = std::collections::HashSet::new();
            let mut repeated = false;
            let in_macro = src.contains(".map(") || src.contains(".all(") || src.contains(".exists") || src.contains(".filter(");
            for ev in &got {
                if let Ev::Enter(id) = ev {
                    if !seen.insert(*id) {
                        repeated = true;
                    }
                }
            }
            let kind = if repeated && !in_macro { "evaluated-more-than-once" } else { "order-or-count" };
            run.fail(
                &format!("C07|{}|{}|{}", family, tname, kind),
                format!("`{}`: evaluation log {} but source order requires {}", src, show_log(&got), show_log(&expected)),
                case(),
            );
        }
        // node-entry monitor: entries(child) <= entries(parent) * mult
        let mut info = HashMap::new();
        index_ast(&ast, 0, 1, &mut info, MAX_RANGE);
        for (id, n) in counts.iter() {
            if let Some(ni) = info.get(id) {
                let pe = if ni.parent == 0 { 1 } else { counts.get(&ni.parent).copied().unwrap_or(0) };
                if *n > pe * ni.mult {
                    class = "node-reentered";
                    run.fail(
                        &format!("C07|{}|{}|node-entered-too-often", family, tname),
                        format!("`{}`: AST node {} was evaluated {} times for {} evaluation(s) of its parent (limit x{})", src, id, n, pe, ni.mult),
                        case(),
                    );
                    break;
                }
            }
        }
    }
    run.extra_add("sum_resolve_steps", steps);
    run.class(&format!("{}:{}", family, class), case);
}

fn show_log(l: &[Ev]) -> String {
    let mut s = String::new();
    for e in l.iter().take(40) {
        match e {
            Ev::Enter(i) => s.push_str(&format!("<{} ", i)),
            Ev::Exit(i) => s.push_str(&format!("{}> ", i)),
            Ev::Call(n, a) => s.push_str(&format!("{}({}) ", n, a.iter().map(|x| x.show()).collect::<Vec<_>>().join(","))),
        }
    }
    s
}

pub fn run(run: &mut Run) {
    run.set_case_limit_ms(20_000);
    let tpls = templates();
    let mut env = model_env();
    let log = hosts::new_log();
    let ctx = subject_ctx(&env, &log);
    let leaves: Vec<E> = vec![li(1), li(0), E::Var("i".into()), li(2)];
    let int_tpls: Vec<usize> = (0..tpls.len()).filter(|&i| tpls[i].int_valued).collect();

    // ---- level 1: every template, every leaf assignment, every hole wrapped
    run.sub("level1");
    for t in tpls.iter() {
        let total = (leaves.len() as u64).pow(t.holes as u32);
        for code in 0..total {
            if !run.take() {
                continue;
            }
            let mut c = code;
            let mut id = 0;
            let mut hs = vec![];
            for _ in 0..t.holes {
                hs.push(wrap(&mut id, leaves[(c % leaves.len() as u64) as usize].clone()));
                c /= leaves.len() as u64;
            }
            let e = wrap(&mut id, (t.build)(hs));
            check(run, "level1", t.name, &e, &mut env, &ctx, &log);
        }
    }

    // ---- level 2: every template whose holes are each either a wrapped leaf or a wrapped
    //      int-valued template over wrapped leaves
    run.sub("level2");
    let nleaf = run.pick(1usize, 3usize); // leaves used at the inner level
    let fillers = 1 + int_tpls.len(); // 0 = leaf, k = k-th int template
    for t in tpls.iter() {
        let total = (fillers as u64).pow(t.holes.min(3) as u32);
        for code in 0..total {
            // inner leaf choice: rotate through leaf assignments deterministically by variant
            for variant in 0..nleaf {
                if !run.take() {
                    continue;
                }
                let mut c = code;
                let mut id = 0;
                let mut hs = vec![];
                let mut lc = variant;
                for hole in 0..t.holes {
                    // holes beyond the third stay leaves at this level (keeps the product bounded)
                    let f = if hole < 3 { (c % fillers as u64) as usize } else { 0 };
                    if hole < 3 {
                        c /= fillers as u64;
                    }
                    if f == 0 {
                        hs.push(wrap(&mut id, leaves[lc % leaves.len()].clone()));
                        lc += 1;
                    } else {
                        let it = &tpls[int_tpls[f - 1]];
                        let mut inner = vec![];
                        for _ in 0..it.holes {
                            inner.push(wrap(&mut id, leaves[lc % leaves.len()].clone()));
                            lc += 1;
                        }
                        hs.push(wrap(&mut id, (it.build)(inner)));
                    }
                }
                let e = (t.build)(hs);
                check(run, "level2", t.name, &e, &mut env, &ctx, &log);
            }
        }
    }

    // ---- positional parameters mixed with the `Arguments` extractor: every leaf assignment, then every
    //      hole either a wrapped leaf or a wrapped int-valued template over wrapped leaves
    run.sub("mixed-arguments");
    let mixed = mixed_templates();
    let inner_names: &[&str] = if run.quick() { &["+", "?:", "neg", "max2", "hA1", "hp2", "size(map)", "index"] } else { &["+", "%", "?:", "neg", "index", "select", "max2", "min4", "int()", ".size", "h0", "hA1", "hA3", ".hA2", "hp2", "hv2", ".ht1", "_h1", "hpt3", "size(map)", "exists?1:0", "filter[0]"] };
    let inner_tpls: Vec<usize> = (0..tpls.len()).filter(|&i| inner_names.contains(&tpls[i].name)).collect();
    let mfillers = 1 + inner_tpls.len();
    for t in mixed.iter() {
        let total = (leaves.len() as u64).pow(t.holes as u32);
        for code in 0..total {
            if !run.take() {
                continue;
            }
            let mut c = code;
            let mut id = 0;
            let mut hs = vec![];
            for _ in 0..t.holes {
                hs.push(wrap(&mut id, leaves[(c % leaves.len() as u64) as usize].clone()));
                c /= leaves.len() as u64;
            }
            let e = wrap(&mut id, (t.build)(hs));
            check(run, "mixed-arguments", t.name, &e, &mut env, &ctx, &log);
        }
        let total = (mfillers as u64).pow(t.holes as u32);
        for code in 0..total {
            if !run.take() {
                continue;
            }
            let mut c = code;
            let mut id = 0;
            let mut hs = vec![];
            let mut lc = 0usize;
            for _ in 0..t.holes {
                let f = (c % mfillers as u64) as usize;
                c /= mfillers as u64;
                if f == 0 {
                    hs.push(wrap(&mut id, leaves[lc % leaves.len()].clone()));
                    lc += 1;
                } else {
                    let it = &tpls[inner_tpls[f - 1]];
                    let mut inner = vec![];
                    for _ in 0..it.holes {
                        inner.push(wrap(&mut id, leaves[lc % leaves.len()].clone()));
                        lc += 1;
                    }
                    hs.push(wrap(&mut id, (it.build)(inner)));
                }
            }
            let e = (t.build)(hs);
            check(run, "mixed-arguments", t.name, &e, &mut env, &ctx, &log);
        }
    }

    // ---- chains: f(f(...f(x))) for every 1- and 2-argument callee, every depth
    let maxd = run.pick(10usize, 32usize);
    run.sub("chains");
    let unary: Vec<(&str, Box<dyn Fn(E) -> E>)> = vec![
        ("int", Box::new(|e| call("int", vec![e]))),
        ("uint", Box::new(|e| call("uint", vec![e]))),
        ("double", Box::new(|e| call("double", vec![e]))),
        ("string", Box::new(|e| call("string", vec![e]))),
        ("max1", Box::new(|e| call("max", vec![e]))),
        ("min1", Box::new(|e| call("min", vec![e]))),
        ("hA", Box::new(|e| call("hA", vec![e]))),
        (".int", Box::new(|e| mcall(e, "int", vec![]))),
        (".hA", Box::new(|e| mcall(e, "hA", vec![]))),
        ("size-list", Box::new(|e| call("size", vec![E::List(vec![e])]))),
        ("max2-left", Box::new(|e| call("max", vec![e, li(0)]))),
        ("max2-right", Box::new(|e| call("max", vec![li(0), e]))),
        ("hp2-left", Box::new(|e| call("hp2", vec![e, li(0)]))),
        ("hv2-right", Box::new(|e| call("hv2", vec![li(0), e]))),
        (".ht-recv", Box::new(|e| mcall(e, "ht", vec![li(0)]))),
        (".ht-arg", Box::new(|e| mcall(li(0), "ht", vec![e]))),
        ("contains-left", Box::new(|e| call("contains", vec![E::List(vec![e]), li(1)]))),
        ("startsWith", Box::new(|e| call("startsWith", vec![call("string", vec![e]), E::Lit(MV::s("1"))]))),
        ("+", Box::new(|e| E::Bin("+", b(e), b(li(1))))),
        ("index", Box::new(|e| E::Index(b(E::List(vec![li(5), li(6)])), b(e)))),
        ("neg", Box::new(|e| E::Un("-", b(e)))),
        ("cond", Box::new(|e| E::Cond(b(gt0(e)), b(li(1)), b(li(0))))),
        ("t-only", Box::new(|e| e)),
    ];
    for (name, f) in unary.iter() {
        for d in 1..=maxd {
            if !run.take() {
                continue;
            }
            let mut id = 0;
            let mut e = wrap(&mut id, li(1));
            for _ in 0..d {
                e = wrap(&mut id, f(e));
            }
            check(run, "chain", name, &e, &mut env, &ctx, &log);
        }
    }
}

//! C06 — logical operators and the conditional evaluate only what they need.
use crate::core::{guard, Run};
use crate::hosts;
use crate::mv::MV;
use crate::reval::{Ev, Host};
use cel_interpreter::{Context, ExecutionError, Program, Value};
use serde_json::json;
use std::collections::BTreeSet;

#[derive(Clone, Debug)]
enum S {
    Leaf(char, i64),
    And(Box<S>, Box<S>),
    Or(Box<S>, Box<S>),
    Cond(Box<S>, Box<S>, Box<S>),
}

const KINDS: [&str; 6] = ["div0", "overflow", "nokey", "undeclared", "boom", "nofn"];

fn leaf_src(kind: char, id: i64) -> String {
    match kind {
        'T' => format!("T({})", id),
        'F' => format!("F({})", id),
        't' => "true".to_string(),
        'f' => "false".to_string(),
        _ => match KINDS[(id as usize) % 6] {
            "div0" => format!("({} / 0 > 0)", 1000 + id),
            "overflow" => format!("(9223372036854775807 + {} > 0)", 1000 + id),
            "nokey" => format!("{{'a': true}}.k{}", 1000 + id),
            "undeclared" => format!("nope{}", 1000 + id),
            "nofn" => format!("nofn{}(true)", 1000 + id),
            _ => format!("boom({})", id),
        },
    }
}

impl S {
    fn src(&self) -> String {
        match self {
            S::Leaf(k, id) => leaf_src(*k, *id),
            S::And(a, b) => format!("({} && {})", a.src(), b.src()),
            S::Or(a, b) => format!("({} || {})", a.src(), b.src()),
            S::Cond(c, a, b) => format!("({} ? {} : {})", c.src(), a.src(), b.src()),
        }
    }
    /// reference: which leaves are evaluated; None = an error leaf was reached
    fn needed(&self, out: &mut BTreeSet<i64>) -> Option<bool> {
        match self {
            S::Leaf(k, id) => {
                out.insert(*id);
                match k {
                    'T' | 't' => Some(true),
                    'F' | 'f' => Some(false),
                    _ => None,
                }
            }
            S::And(a, b) => {
                if !a.needed(out)? {
                    return Some(false);
                }
                b.needed(out)
            }
            S::Or(a, b) => {
                if a.needed(out)? {
                    return Some(true);
                }
                b.needed(out)
            }
            S::Cond(c, a, b) => {
                if c.needed(out)? {
                    a.needed(out)
                } else {
                    b.needed(out)
                }
            }
        }
    }
    fn number(&mut self, c: &mut i64) {
        match self {
            S::Leaf(_, id) => {
                *id = *c;
                *c += 1;
            }
            S::And(a, b) | S::Or(a, b) => {
                a.number(c);
                b.number(c);
            }
            S::Cond(x, a, b) => {
                x.number(c);
                a.number(c);
                b.number(c);
            }
        }
    }
    fn leaves(&self, out: &mut Vec<(char, i64)>) {
        match self {
            S::Leaf(k, id) => out.push((*k, *id)),
            S::And(a, b) | S::Or(a, b) => {
                a.leaves(out);
                b.leaves(out);
            }
            S::Cond(x, a, b) => {
                x.leaves(out);
                a.leaves(out);
                b.leaves(out);
            }
        }
    }
}

/// counts[n] = trees with exactly n operators over `kinds` leaf kinds
fn counts(max: usize, kinds: usize) -> Vec<u128> {
    let mut c = vec![kinds as u128];
    for n in 1..=max {
        let mut t = 0u128;
        for i in 0..n {
            t += 2 * c[i] * c[n - 1 - i];
        }
        for i in 0..n {
            for j in 0..(n - i) {
                t += c[i] * c[j] * c[n - 1 - i - j];
            }
        }
        c.push(t);
    }
    c
}

const LEAF_KINDS: [char; 5] = ['T', 'F', 'E', 't', 'f'];

fn unrank(c: &[u128], n: usize, mut i: u128) -> S {
    if n == 0 {
        return S::Leaf(LEAF_KINDS[i as usize], 0);
    }
    for op in 0..2 {
        for l in 0..n {
            let r = n - 1 - l;
            let b = c[l] * c[r];
            if i < b {
                let x = unrank(c, l, i % c[l]);
                let y = unrank(c, r, i / c[l]);
                return if op == 0 { S::And(Box::new(x), Box::new(y)) } else { S::Or(Box::new(x), Box::new(y)) };
            }
            i -= b;
        }
    }
    for l in 0..n {
        for m in 0..(n - l) {
            let r = n - 1 - l - m;
            let b = c[l] * c[m] * c[r];
            if i < b {
                let x = unrank(c, l, i % c[l]);
                i /= c[l];
                let y = unrank(c, m, i % c[m]);
                let z = unrank(c, r, i / c[m]);
                return S::Cond(Box::new(x), Box::new(y), Box::new(z));
            }
            i -= b;
        }
    }
    unreachable!()
}

/// the leaf id an execution error belongs to
fn signature(e: &ExecutionError) -> Option<i64> {
    match e {
        ExecutionError::DivisionByZero(Value::Int(i)) => Some(*i - 1000),
        ExecutionError::IntegerOverflow(_, _, Value::Int(i)) => Some(*i - 1000),
        ExecutionError::NoSuchKey(k) => k.strip_prefix('k').and_then(|d| d.parse::<i64>().ok()).map(|v| v - 1000),
        ExecutionError::UndeclaredReference(n) => n.strip_prefix("nope").or_else(|| n.strip_prefix("nofn")).and_then(|d| d.parse::<i64>().ok()).map(|v| v - 1000),
        _ => None,
    }
}

const CONTEXTS: [(&str, &str, &str); 15] = [
    ("bare", "", ""),
    ("all", "[1].all(x, ", ")"),
    ("exists", "[0, 1].exists(x, ", ")"),
    ("map", "[1].map(x, ", ")"),
    ("filter", "[1].filter(x, ", ")"),
    ("exists_one", "[1, 2].exists_one(x, ", ")"),
    ("map3-filter", "[1].map(x, ", ", x)"),
    ("map3-transform", "[1].map(x, true, ", ")"),
    ("nested-macro", "[1].map(y, [2].all(x, ", "))"),
    ("list-element", "[", ", 1][0]"),
    ("map-value", "{'k': ", "}.k"),
    ("call-argument", "string(", " ? 1 : 2)"),
    ("negated", "!(", ")"),
    ("compared", "(", ") == true"),
    ("conditional-branch", "true ? (", ") : false"),
];

pub fn run(run: &mut Run) {
    let max_ops = run.pick(3usize, 4usize);
    let c = counts(max_ops, 3);
    let log = hosts::new_log();
    let mut ctx = Context::default();
    hosts::register(&mut ctx, "T", &Host::Const(MV::Bool(true)), &log);
    hosts::register(&mut ctx, "F", &Host::Const(MV::Bool(false)), &log);
    hosts::register(&mut ctx, "boom", &Host::Fail, &log);
    // the same trees with the boolean literals `true` / `false` as two more leaf kinds (a parser or
    // evaluator that special-cases literal operands must still skip the other operands); trees
    // without a literal leaf are the family above and are not repeated. The largest size runs
    // in 3 of the 15 contexts.
    let lit_ops = run.pick(2usize, 3usize);
    let c5 = counts(lit_ops, 5);
    for pass in 0..2 {
    let (c, max_ops) = if pass == 0 { (c.clone(), max_ops) } else { (c5.clone(), lit_ops) };
    for n in 0..=max_ops {
        run.sub(&format!("{}-{}op", if pass == 0 { "trees" } else { "trees-with-literals" }, n));
        let cnt = c[n];
        let mut i: u128 = 0;
        while i < cnt {
            if pass == 1 {
                let mut l = vec![];
                unrank(&c, n, i).leaves(&mut l);
                if !l.iter().any(|(k, _)| *k == 't' || *k == 'f') {
                    i += 1;
                    continue;
                }
            }
            for (ci, (cname, pre, post)) in CONTEXTS.iter().enumerate() {
                if pass == 1 && n == 3 && !(ci == 0 || ci == 1 || ci == 14) {
                    continue;
                }
                if !run.take() {
                    continue;
                }
                let mut t = unrank(&c, n, i);
                let mut k = 0;
                t.number(&mut k);
                let src = format!("{}{}{}", pre, t.src(), post);
                let mut needed = BTreeSet::new();
                let refres = t.needed(&mut needed);
                log.lock().unwrap().clear();
                let r = guard(|| Program::compile(&src).map(|p| p.execute(&ctx)));
                run.trans(2);
                run.validated();
                let mut all = vec![];
                t.leaves(&mut all);
                if needed.len() < all.len() {
                    run.nontrivial();
                }
                let evs: Vec<Ev> = log.lock().unwrap().clone();
                let mut visited = BTreeSet::new();
                for ev in &evs {
                    if let Ev::Call(_, args) = ev {
                        if let Some(MV::Int(id)) = args.first() {
                            visited.insert(*id);
                        }
                    }
                }
                let case = || json!({"src": src, "needed": needed.iter().collect::<Vec<_>>(), "visited": visited.iter().collect::<Vec<_>>()});
                let class;
                match &r {
                    Err(p) => {
                        class = "panic".to_string();
                        run.fail(&format!("C06|{}|panic", cname), format!("`{}` panicked: {}", src, p), case());
                    }
                    Ok(Err(e)) => {
                        class = "compile-error".to_string();
                        run.fail(&format!("C06|{}|compile-error", cname), format!("`{}` does not compile: {}", src, crate::subj::first_line(&e.to_string())), case());
                    }
                    Ok(Ok(res)) => {
                        class = match res {
                            Ok(_) => format!("value:{}", if refres.is_some() { "ref-value" } else { "ref-error" }),
                            Err(_) => format!("error:{}", if refres.is_some() { "ref-value" } else { "ref-error" }),
                        };
                        let extra: Vec<i64> = visited.difference(&needed).cloned().collect();
                        if !extra.is_empty() {
                            run.fail(
                                &format!("C06|{}|skipped-operand-evaluated|ops{}", cname, n),
                                format!("`{}`: host functions in skipped operands were called: leaf ids {:?} (needed {:?})", src, extra, needed),
                                case(),
                            );
                        }
                        if let Err(e) = res {
                            if let Some(id) = signature(e) {
                                if !needed.contains(&id) {
                                    run.fail(
                                        &format!("C06|{}|error-from-skipped-operand|ops{}", cname, n),
                                        format!("`{}`: failed with {:?}, raised by leaf {} which must be skipped (needed {:?})", src, e, id, needed),
                                        case(),
                                    );
                                }
                            }
                        }
                    }
                }
                run.class(&format!("{}:{}", cname, class), case);
            }
            i += 1;
        }
    }
    }
}

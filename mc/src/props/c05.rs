//! C05 — execution is pure, repeatable and safe to share across threads.
//! (A) event histories on one context (engine E2), (A2) 50-step alternations,
//! (B) preemption-bounded schedules of real threads sharing one root context (engine E3).
//! The static Send + Sync part lives in /verif/sendsync and is built by the driver.
use crate::core::{guard, Run};
use crate::e2;
use crate::e3::{self, Sched};
use crate::mv::{Out, MK, MV};
use crate::subj;
use cel_interpreter::{Context, ExecutionError, FunctionContext, Program, Value};
use serde_json::json;
use std::collections::HashMap;
use std::sync::{Arc, Mutex};

fn root_values() -> Vec<(&'static str, MV)> {
    let li = |v: &[i64]| MV::List(v.iter().map(|i| MV::Int(*i)).collect());
    vec![
        ("xs", li(&[1, 2])),
        ("ys", li(&[3])),
        ("e", li(&[])),
        ("s", MV::s("ab")),
        ("es", MV::s("")),
        ("b", MV::Bytes(vec![1])),
        ("m", MV::Map(vec![(MK::Str("k".into()), li(&[1]))])),
        ("n", MV::List(vec![li(&[1]), li(&[2])])),
        ("v", MV::Int(100)),
    ]
}

fn build_root() -> Context<'static> {
    let mut ctx = Context::default();
    for (n, v) in root_values() {
        ctx.add_variable_from_value(n, v.to_value());
    }
    ctx
}

const P18: [&str; 36] = [
    "xs + [9]", "xs + ys", "xs + xs", "(xs + ys) + xs", "e + xs", "s + 'c'", "s + s", "es + s", "xs.map(v, v + 1)", "xs.filter(v, v > 1)", "n.map(l, l + [0])", "n[0] + n[1]",
    "m.k + [2]", "m.map(k, m[k] + [5])", "[xs, xs]", "{'a': xs}", "r0 + [7]", "r0 + r0",
    // a macro that fails in the middle of its loop, and macros that read a same-named outer
    // variable / an undeclared name afterwards (stale state of an aborted evaluation)
    "xs.map(v, 10 / (v - 2))", "ys.map(w, v + w)", "xs.filter(u, 10 / (u - 2) > 0)", "ys.map(w, [w, u])",
    // built-ins that could memoise (regex, conversions): different arguments in one history
    // a macro variable named like a context variable that is read again after the macro
    "[1, 2].map(r0, r0 * 2) + r0", "xs.map(v, v + 1) + [v]",
    "s.matches('^a')", "s.matches('b$') && !s.matches('^b')", "[string(xs[0]), string(xs[1]), s + string(v)]", "size(xs + ys) + size(s + s)",
    // the same question asked of two short-lived values of the same shape but different content
    // (an answer remembered by the address of a temporary would be stale)
    "[has({'a': 1}.a), {'a': 1}.size() == 1, 1 in {'a': 1}]", "[has({'b': 1}.a), {'b': 2}.size() == 2, 1 in {'b': 1}]",
    // built-in names selected as members without being called, next to programs that call them
    // (a registry filled lazily by the first call would change what later executions see)
    "xs.size", "[s.matches, xs.string]",
    // two programs of the same shape (same node ids) with different literals; the first fails after
    // evaluating its literals (state left behind by an aborted evaluation, keyed by position)
    "[s + 'xAAA!', b'AAA', 'AAA', string(10 / (xs[0] - 1))]", "[s + 'xBBB!', b'BBB', 'BBB', string(10 / (xs[0] - 0))]",
    // membership in two equal-shaped temporary lists of eight strings (an index remembered by the
    // address and length of a temporary would be stale)
    "'q' in (['a', 'b', 'c', 'd', 'e', 'f', 'g'] + ['q'])", "['z' in (['a', 'b', 'c', 'd', 'e', 'f', 'g'] + ['z']), ['a', 'b', 'c', 'd', 'e', 'f', 'g', 'h'].all(y, y in (['1', '2', '3', '4', '5', '6', '7'] + [y]))]",
];

fn arc_id(v: &Value) -> Option<(usize, usize)> {
    match v {
        Value::List(a) => Some((Arc::as_ptr(a) as *const u8 as usize, Arc::strong_count(a))),
        Value::String(a) => Some((Arc::as_ptr(a) as *const u8 as usize, Arc::strong_count(a))),
        Value::Bytes(a) => Some((Arc::as_ptr(a) as *const u8 as usize, Arc::strong_count(a))),
        Value::Map(m) => Some((Arc::as_ptr(&m.map) as *const u8 as usize, Arc::strong_count(&m.map))),
        _ => None,
    }
}

/// pointers of the value and of its direct children (list elements / map values)
fn arc_ids_deep(v: &Value, out: &mut Vec<(usize, usize)>) {
    if let Some(id) = arc_id(v) {
        out.push(id);
    }
    match v {
        Value::List(l) => {
            for x in l.iter() {
                if let Some(id) = arc_id(x) {
                    out.push(id);
                }
            }
        }
        Value::Map(m) => {
            for x in m.map.values() {
                if let Some(id) = arc_id(x) {
                    out.push(id);
                }
            }
        }
        _ => {}
    }
}

// ---------------------------------------------------------------------------
// (A) histories

#[derive(Clone, Debug, PartialEq)]
enum EvA {
    /// execute program p; retain the result (true) or drop it (false)
    Exec(usize, bool),
    /// define retained result i as variable r0 of the inner scope, by move (true) or by clone
    Feed(usize, bool),
    /// drop retained result i
    Drop(usize),
}

fn show_hist(h: &[EvA]) -> Vec<String> {
    h.iter()
        .map(|e| match e {
            EvA::Exec(p, k) => format!("execute `{}` ({})", P18[*p], if *k { "keep result" } else { "drop result" }),
            EvA::Feed(i, true) => format!("move retained result #{} into variable r0", i),
            EvA::Feed(i, false) => format!("clone retained result #{} into variable r0", i),
            EvA::Drop(i) => format!("drop retained result #{}", i),
        })
        .collect()
}

struct PartA {
    progs: Vec<Program>,
    prog_debug: Vec<String>,
    root_snapshot: Vec<(&'static str, MV)>,
    /// result of every program that does not read r0, computed once before any history ran
    baseline: Vec<Option<Out>>,
}

impl PartA {
    /// replays the history on fresh real objects, checking the invariants after every event;
    /// returns the canonical key of the reached state, or the description of a violation
    fn replay(&self, run: &mut Run, h: &[EvA]) -> Result<String, (String, String)> {
        let root = build_root();
        let mut child = root.new_inner_scope();
        let mut retained: Vec<(Value, MV)> = vec![];
        let mut r0: Option<MV> = None;
        let mut sharing_seen = false;
        for (step, ev) in h.iter().enumerate() {
            match ev {
                EvA::Exec(p, keep) => {
                    let r1 = guard(|| self.progs[*p].execute(&child));
                    let r2 = guard(|| self.progs[*p].execute(&child));
                    run.trans(2);
                    let (o1, o2) = (crate::mv::out_of(r1.clone()), crate::mv::out_of(r2));
                    if let Out::Panic(pn) = &o1 {
                        return Err(("panic".into(), format!("step {}: `{}` panicked: {}", step, P18[*p], pn)));
                    }
                    if let Some(b) = &self.baseline[*p] {
                        if *b != o1 {
                            return Err(("differs-from-pristine-result".into(), format!("step {}: `{}` gave {} but {} when it was executed first, before any history", step, P18[*p], o1.show(), b.show())));
                        }
                    }
                    if o1 != o2 {
                        return Err(("not-repeatable".into(), format!("step {}: `{}` gave {} and then {} against the same context", step, P18[*p], o1.show(), o2.show())));
                    }
                    // differential: the same program on a fresh context with equal variables
                    let fresh_root = build_root();
                    let mut fresh = fresh_root.new_inner_scope();
                    if let Some(v) = &r0 {
                        fresh.add_variable_from_value("r0", v.to_value());
                    }
                    // ... with a freshly compiled program, so that state hidden inside the shared
                    // Program object (a result cache) cannot make both sides agree
                    let fresh_prog = Program::compile(P18[*p]).expect("compiles");
                    let o3 = subj::exec(&fresh_prog, &fresh);
                    run.trans(1);
                    if o1 != o3 {
                        return Err(("differs-from-fresh-context".into(), format!("step {}: `{}` gave {} in this history but {} on a fresh context with equal variables", step, P18[*p], o1.show(), o3.show())));
                    }
                    if *keep && retained.len() < 3 {
                        if let Ok(Ok(v)) = r1 {
                            let m = MV::from_value(&v);
                            retained.push((v, m));
                        }
                    }
                }
                EvA::Feed(i, by_move) => {
                    if *i < retained.len() {
                        let (v, m) = if *by_move { retained.remove(*i) } else { (retained[*i].0.clone(), retained[*i].1.clone()) };
                        child.add_variable_from_value("r0", v);
                        r0 = Some(m);
                    }
                }
                EvA::Drop(i) => {
                    if *i < retained.len() {
                        retained.remove(*i);
                    }
                }
            }
            // invariants after every event
            for (n, want) in self.root_snapshot.iter() {
                match root.get_variable(*n) {
                    Ok(v) if MV::from_value(&v) == *want => {}
                    other => return Err(("context-variable-changed".into(), format!("after step {} the context variable {} is {:?}; it was {}", step, n, other.map(|v| MV::from_value(&v).show()), want.show()))),
                }
            }
            if let Some(want) = &r0 {
                match child.get_variable("r0") {
                    Ok(v) if MV::from_value(&v) == *want => {}
                    other => return Err(("inner-variable-changed".into(), format!("after step {} the variable r0 is {:?}; it was {}", step, other.map(|v| MV::from_value(&v).show()), want.show()))),
                }
            }
            for (k, (v, want)) in retained.iter().enumerate() {
                if MV::from_value(v) != *want {
                    return Err(("retained-value-changed".into(), format!("after step {} the retained result #{} is {}; it was {} when obtained", step, k, MV::from_value(v).show(), want.show())));
                }
            }
        }
        for (p, d) in self.prog_debug.iter().enumerate() {
            if format!("{:?}", self.progs[p]) != *d {
                return Err(("program-changed".into(), format!("program `{}` changed", P18[p])));
            }
        }
        // canonical key: values + aliasing partition + strong counts
        let mut ids: Vec<(usize, usize)> = vec![];
        let mut key = String::new();
        for (n, _) in self.root_snapshot.iter() {
            let v = root.get_variable(*n).unwrap();
            arc_ids_deep(&v, &mut ids);
        }
        let nroot = ids.len();
        if let Some(m) = &r0 {
            key.push_str(&format!("r0={};", m.show()));
            let v = child.get_variable("r0").unwrap();
            arc_ids_deep(&v, &mut ids);
        }
        for (v, m) in retained.iter() {
            key.push_str(&format!("ret={};", m.show()));
            arc_ids_deep(v, &mut ids);
        }
        let mut classes: HashMap<usize, usize> = HashMap::new();
        for (k, (ptr, cnt)) in ids.iter().enumerate() {
            let c = classes.len();
            let id = *classes.entry(*ptr).or_insert(c);
            if id != c && k >= nroot && id < nroot {
                sharing_seen = true;
            }
            key.push_str(&format!("{}:{},", id, cnt));
        }
        if sharing_seen {
            run.extra_add("sum_states_sharing_an_arc_with_a_context_variable", 1);
        }
        Ok(key)
    }
}

fn part_a(run: &mut Run) {
    let pa = PartA {
        progs: P18.iter().map(|s| Program::compile(s).expect("P18 compiles")).collect(),
        prog_debug: P18.iter().map(|s| format!("{:?}", Program::compile(s).unwrap())).collect(),
        root_snapshot: root_values(),
        baseline: P18
            .iter()
            .map(|s| {
                if s.contains("r0") {
                    None
                } else {
                    let root = build_root();
                    let child = root.new_inner_scope();
                    Some(subj::exec(&Program::compile(s).unwrap(), &child))
                }
            })
            .collect(),
    };
    let max_depth = run.pick(3usize, 5usize);
    run.sub("histories");
    let enabled = |_h: &[EvA]| -> Vec<EvA> {
        let mut v = vec![];
        for p in 0..P18.len() {
            v.push(EvA::Exec(p, true));
        }
        for p in 0..P18.len() {
            v.push(EvA::Exec(p, false));
        }
        for i in 0..3 {
            v.push(EvA::Feed(i, false));
            v.push(EvA::Feed(i, true));
            v.push(EvA::Drop(i));
        }
        v
    };
    let mut step = |run: &mut Run, h: &[EvA]| -> Option<String> {
        run.validated();
        if h.iter().any(|e| matches!(e, EvA::Feed(..))) {
            run.nontrivial();
        }
        match pa.replay(run, h) {
            Ok(k) => {
                run.class(&format!("history:len{}:ok", h.len()), || json!({"history": show_hist(h)}));
                Some(k)
            }
            Err((kind, detail)) => {
                run.class(&format!("history:len{}:VIOLATION", h.len()), || json!({"history": show_hist(h)}));
                run.fail(&format!("C05|A|{}", kind), format!("history {:?}: {}", show_hist(h), detail), json!({"history": show_hist(h)}));
                None
            }
        }
    };
    let st = e2::explore(run, max_depth, 2, &enabled, &mut step);
    run.extra_add("sum_e2_histories", st.histories);
    run.extra_add("sum_e2_distinct_canonical_states", st.distinct_states);
    run.extra_add("sum_e2_pruned_duplicates", st.pruned_duplicates);
    run.rep.extra.insert("max_e2_depth".into(), json!(st.max_depth));

    // ---- (A2) every ordered pair (p, q): the 50-step alternation p, q, p, q, ... with all results retained
    run.sub("alternations");
    for p in 0..P18.len() {
        for q in 0..P18.len() {
            if !run.take() {
                continue;
            }
            let root = build_root();
            let mut child = root.new_inner_scope();
            child.add_variable_from_value("r0", MV::List(vec![MV::Int(5)]).to_value());
            let mut retained: Vec<(Value, MV)> = vec![];
            let mut first: [Option<Out>; 2] = [None, None];
            let mut bad: Option<(String, String)> = None;
            for stepn in 0..50 {
                let which = stepn % 2;
                let pi = if which == 0 { p } else { q };
                let r = guard(|| pa.progs[pi].execute(&child));
                run.trans(1);
                let o = crate::mv::out_of(r.clone());
                match &first[which] {
                    None => first[which] = Some(o.clone()),
                    Some(f) => {
                        if *f != o {
                            bad = Some(("alternation-result-drifts".into(), format!("step {}: `{}` gave {} but {} the first time", stepn, P18[pi], o.show(), f.show())));
                            break;
                        }
                    }
                }
                if let Ok(Ok(v)) = r {
                    let m = MV::from_value(&v);
                    retained.push((v, m));
                }
                for (n, want) in pa.root_snapshot.iter() {
                    if root.get_variable(*n).map(|v| MV::from_value(&v)) != Ok(want.clone()) {
                        bad = Some(("context-variable-changed".into(), format!("step {}: context variable {} changed", stepn, n)));
                    }
                }
                for (k, (v, want)) in retained.iter().enumerate() {
                    if MV::from_value(v) != *want {
                        bad = Some(("retained-value-changed".into(), format!("step {}: retained result #{} is now {}; it was {}", stepn, k, MV::from_value(v).show(), want.show())));
                        break;
                    }
                }
                if bad.is_some() {
                    break;
                }
            }
            run.validated();
            run.nontrivial();
            run.class(&format!("alternation:{}", if bad.is_some() { "VIOLATION" } else { "ok" }), || json!({"p": P18[p], "q": P18[q]}));
            if let Some((kind, detail)) = bad {
                run.fail(&format!("C05|A2|{}", kind), format!("alternating `{}` and `{}`: {}", P18[p], P18[q], detail), json!({"p": P18[p], "q": P18[q]}));
            }
        }
    }
}

// ---------------------------------------------------------------------------
// (B) schedules

const P8: [&str; 12] = [
    "[xs + [9, me], sc()][0]",
    "[[me, xs[0]], sc()][0]",
    "[{'a': xs, 'b': me}, sc()][0]",
    "[s + 'c' + s, sc()][0]",
    "[xs.map(v, [v, me]), sc()][0]",
    "[xs.filter(v, v > me), sc()][0]",
    "[n.map(l, l + [me, 0]), sc()][0]",
    "[max(xs[0], me, xs[1]), sc()][0]",
    "[[s.matches('^a'), s.matches('^b'), me], sc()][0]",
    "[[s.matches('b$'), string(me) + s, s.matches('^b')], sc()][0]",
    "[[1, 2].map(me, me * 2) + [me], sc()][0]",
    // nine comprehension scopes open at once in each thread (a budget shared between threads would show)
    "[[1].map(a, [2].map(b, [3].map(c, [4].map(d, [5].map(e2, [6].map(g, [7].map(h, [8].map(i, [9].map(j, a + j + me))))))))), sc()][0]",
];

struct PartB {
    root: Context<'static>,
    progs: Vec<Program>,
    /// solo[thread][program]
    solo: Vec<Vec<Out>>,
    side: Arc<Mutex<Vec<usize>>>,
    baseline_counts: Vec<usize>,
}

fn strong_counts(root: &Context) -> Vec<usize> {
    let mut out = vec![];
    for (n, _) in root_values() {
        let v = root.get_variable(n).unwrap();
        let mut ids = vec![];
        arc_ids_deep(&v, &mut ids);
        out.extend(ids.into_iter().map(|(_, c)| c));
    }
    out
}

impl PartB {
    fn new(nthreads: usize) -> PartB {
        let mut root = build_root();
        let side: Arc<Mutex<Vec<usize>>> = Arc::new(Mutex::new(vec![]));
        let s2 = side.clone();
        // a side observable that legitimately varies with the schedule: the strong count of `xs`
        // seen in the middle of a program
        root.add_function("sc", move |ftx: &FunctionContext| -> Result<Value, ExecutionError> {
            if let Ok(Value::List(l)) = ftx.ptx.get_variable("xs") {
                s2.lock().unwrap().push(Arc::strong_count(&l));
            }
            Ok(Value::Int(0))
        });
        let progs: Vec<Program> = P8.iter().map(|s| Program::compile(s).expect("P8 compiles")).collect();
        let mut solo = vec![];
        for t in 0..nthreads {
            let mut inner = root.new_inner_scope();
            inner.add_variable_from_value("me", Value::Int(t as i64 + 1));
            // solo results come from freshly compiled programs (not the shared objects)
            solo.push(P8.iter().map(|s| subj::exec(&Program::compile(s).expect("P8 compiles"), &inner)).collect());
        }
        side.lock().unwrap().clear();
        let baseline_counts = strong_counts(&root);
        PartB { root, progs, solo, side, baseline_counts }
    }

    /// one execution under the schedule prefix: returns (trace, per-thread outcomes, order, diverged)
    fn run_schedule(&self, assign: &[Vec<usize>], prefix: &[usize]) -> (Vec<e3::Pt>, Vec<Vec<Out>>, Vec<usize>, bool) {
        use cel_interpreter::verif::{set_observer, Event};
        let n = assign.len();
        let sched = Arc::new(Sched::new(n, prefix.to_vec()));
        let results: Vec<Mutex<Vec<Out>>> = (0..n).map(|_| Mutex::new(vec![])).collect();
        std::thread::scope(|s| {
            for i in 0..n {
                let sched = sched.clone();
                let results = &results;
                let root = &self.root;
                let progs = &self.progs;
                let mine = &assign[i];
                s.spawn(move || {
                    sched.wait_turn(i);
                    let sc2 = sched.clone();
                    set_observer(Some(Box::new(move |ev| {
                        if let Event::Enter(_) = ev {
                            sc2.point(i);
                        }
                    })));
                    let outs = guard(|| {
                        let mut inner = root.new_inner_scope();
                        inner.add_variable_from_value("me", Value::Int(i as i64 + 1));
                        mine.iter().map(|p| subj::exec(&progs[*p], &inner)).collect::<Vec<Out>>()
                    });
                    set_observer(None);
                    *results[i].lock().unwrap() = match outs {
                        Ok(v) => v,
                        Err(p) => vec![Out::Panic(p)],
                    };
                    sched.finish(i);
                });
            }
            sched.start();
        });
        let (trace, order, diverged) = sched.result();
        let outs = results.into_iter().map(|m| m.into_inner().unwrap()).collect();
        (trace, outs, order, diverged)
    }
}

fn part_b(run: &mut Run) {
    let quick = run.quick();
    // configurations: (threads, programs per thread, preemption bound)
    let mut configs: Vec<(String, Vec<Vec<usize>>, usize)> = vec![];
    for p in 0..P8.len() {
        for q in 0..P8.len() {
            // the exploration covers every interleaving, so (p,q) and (q,p) differ only in the
            // private values of the two threads: the quick tier takes unordered pairs
            if quick && q < p {
                continue;
            }
            // the deep-nesting program has many scheduling points: in the quick tier it meets
            // itself and two representatives only
            if quick && q == P8.len() - 1 && ![0usize, 4, P8.len() - 1].contains(&p) {
                continue;
            }
            // (in the thorough tier the deep-nesting program is explored at bound 2, all others at 3)
            let deep = p == P8.len() - 1 || q == P8.len() - 1;
            configs.push((format!("2t:{}|{}", p, q), vec![vec![p], vec![q]], if quick || deep { 2 } else { 3 }));
        }
    }
    if !quick {
        for p in 0..8 {
            for q in 0..8 {
                configs.push((format!("2t2p:{},{}|{},{}", p, (p + 3) % 8, q, (q + 5) % 8), vec![vec![p, (p + 3) % 8], vec![q, (q + 5) % 8]], 2));
            }
        }
        for a in [0usize, 4, 6] {
            for c in [1usize, 4, 2] {
                for d in [0usize, 6, 7] {
                    configs.push((format!("3t:{}|{}|{}", a, c, d), vec![vec![a], vec![c], vec![d]], 2));
                }
            }
        }
    } else {
        // a few three-thread configurations at bound 1 keep the quick tier honest about n > 2
        for (a, c, d) in [(0usize, 4usize, 6usize), (2, 2, 1)] {
            configs.push((format!("3t:{}|{}|{}", a, c, d), vec![vec![a], vec![c], vec![d]], 1));
        }
    }
    run.sub("schedules");
    let pb2 = PartB::new(2);
    let pb3 = PartB::new(3);
    for (name, assign, bound) in configs.iter() {
        if !run.take() {
            continue;
        }
        let pb = if assign.len() == 2 { &pb2 } else { &pb3 };
        let mut profiles: std::collections::BTreeSet<Vec<usize>> = std::collections::BTreeSet::new();
        let mut stats = e3::Stats::default();
        let mut violation: Option<(String, String, Vec<usize>)> = None;
        // determinism: the default schedule twice
        let (t1, o1, ord1, _) = pb.run_schedule(assign, &[]);
        let (t2, o2, ord2, _) = pb.run_schedule(assign, &[]);
        pb.side.lock().unwrap().clear();
        if t1.len() != t2.len() || o1 != o2 || ord1 != ord2 {
            eprintln!("mc: E3 replay of the default schedule of {} is not deterministic (machinery error)", name);
            std::process::exit(3);
        }
        {
            let mut run_one = |prefix: &[usize]| -> Vec<e3::Pt> {
                crate::core::heartbeat();
                pb.side.lock().unwrap().clear();
                let (trace, outs, order, diverged) = pb.run_schedule(assign, prefix);
                if diverged {
                    eprintln!("mc: E3 schedule prefix {:?} of {} diverged while replaying (machinery error)", prefix, name);
                    std::process::exit(3);
                }
                let mut prof = pb.side.lock().unwrap().clone();
                prof.sort();
                profiles.insert(prof);
                if violation.is_none() {
                    for (i, progs) in assign.iter().enumerate() {
                        for (k, p) in progs.iter().enumerate() {
                            let got = outs[i].get(k);
                            if got != Some(&pb.solo[i][*p]) {
                                violation = Some((
                                    "result-differs-from-solo".into(),
                                    format!("thread {} running `{}` got {:?} but yields {} alone", i, P8[*p], got.map(|o| o.show()), pb.solo[i][*p].show()),
                                    order.clone(),
                                ));
                            }
                        }
                    }
                    for (n, want) in root_values() {
                        if pb.root.get_variable(n).map(|v| MV::from_value(&v)) != Ok(want.clone()) {
                            violation = Some(("shared-context-changed".into(), format!("the shared root variable {} changed", n), order.clone()));
                        }
                    }
                    let counts = strong_counts(&pb.root);
                    if counts != pb.baseline_counts {
                        violation = Some(("arc-count-not-restored".into(), format!("strong counts of the shared variables are {:?}, baseline {:?}", counts, pb.baseline_counts), order.clone()));
                    }
                }
                trace
            };
            e3::explore(*bound, &mut run_one, &mut stats);
        }
        run.rep.states += stats.schedules.saturating_sub(1);
        run.trans(stats.points);
        run.validated();
        run.nontrivial();
        run.extra_add("sum_e3_schedules", stats.schedules);
        run.extra_add("sum_e3_scheduling_points", stats.points);
        run.extra_add("sum_e3_distinct_side_profiles", profiles.len() as u64);
        let e = run.rep.extra.entry("max_e3_points_in_one_schedule".into()).or_insert(json!(0));
        *e = json!(e.as_u64().unwrap_or(0).max(stats.max_points as u64));
        let e = run.rep.extra.entry("max_e3_preemptions_used".into()).or_insert(json!(0));
        *e = json!(e.as_u64().unwrap_or(0).max(stats.max_preemptions_used as u64));
        let srcs: Vec<Vec<&str>> = assign.iter().map(|ps| ps.iter().map(|p| P8[*p]).collect()).collect();
        run.class(&format!("schedules:{}threads:bound{}:{}", assign.len(), bound, if violation.is_some() { "VIOLATION" } else { "ok" }), || json!({"config": name, "programs": srcs, "schedules": stats.schedules, "distinct_side_profiles": profiles.len()}));
        if profiles.len() < 2 {
            run.note(format!("config {}: only {} distinct side profile(s): executions may not have overlapped", name, profiles.len()));
        }
        if let Some((kind, detail, order)) = violation {
            run.fail(&format!("C05|B|{}|{}threads", kind, assign.len()), format!("config {} ({:?}), baton order {:?}: {}", name, srcs, order, detail), json!({"config": name, "programs": srcs, "baton_order": order}));
        }
    }
}

pub fn run(run: &mut Run) {
    run.set_case_limit_ms(120_000);
    part_a(run);
    part_b(run);
}

//! C09 — equality and ordering are coherent and numerically exact across types.
use crate::core::{guard, Run};
use crate::lit::cel_lit;
use crate::mv::{Out, MK, MV};
use crate::nums::{next_down, next_up};
use crate::refsem::{model_eq, model_ord, num, cmp_num, OrdSpec};
use crate::subj;
use cel_interpreter::{Context, Program, Value};
use serde_json::json;
use std::cmp::Ordering;

pub fn value_set(thorough: bool) -> Vec<MV> {
    let p53 = 1i64 << 53;
    let mut v: Vec<MV> = vec![];
    for i in [i64::MIN, i64::MIN + 1, -p53 - 1, -p53, -2, -1, 0, 1, 2, p53 - 1, p53, p53 + 1, i64::MAX - 1, i64::MAX] {
        v.push(MV::Int(i));
    }
    for u in [0u64, 1, 2, p53 as u64, p53 as u64 + 1, (1 << 63) - 1, 1 << 63, (1 << 63) + 1, u64::MAX - 1, u64::MAX] {
        v.push(MV::Uint(u));
    }
    let two63 = 9223372036854775808.0f64;
    let two64 = 18446744073709551616.0f64;
    for f in [
        f64::NEG_INFINITY, -1e300, next_down(-two63), -two63, next_up(-two63), -(p53 as f64) - 2.0, -(p53 as f64), -1.5, -1.0,
        -0.0, 0.0, 5e-324, 0.5, 1.0, 1.5, 2.0, p53 as f64 - 1.0, p53 as f64, p53 as f64 + 2.0, next_down(two63), two63, next_up(two63),
        next_down(two64), two64, next_up(two64), 1e300, f64::INFINITY, f64::NAN,
    ] {
        v.push(MV::f(f));
    }
    for s in ["", "a", "ab", "b", "z", "\u{e9}", "\u{ffff}", "\u{10000}", "A", "1"] {
        v.push(MV::s(s));
    }
    v.push(MV::Bool(false));
    v.push(MV::Bool(true));
    v.push(MV::Null);
    for b in [&b""[..], b"a", b"ab", b"\xff"] {
        v.push(MV::Bytes(b.to_vec()));
    }
    let l = |xs: Vec<MV>| MV::List(xs);
    v.push(l(vec![]));
    v.push(l(vec![MV::Int(1)]));
    v.push(l(vec![MV::f(1.0)]));
    v.push(l(vec![MV::Uint(1)]));
    v.push(l(vec![MV::Int(2)]));
    v.push(l(vec![MV::Int(1), MV::Int(2)]));
    v.push(l(vec![MV::s("a")]));
    v.push(l(vec![l(vec![MV::Int(1)])]));
    v.push(l(vec![MV::f(f64::NAN)]));
    v.push(l(vec![MV::Int(p53 + 1)]));
    v.push(l(vec![MV::f(p53 as f64)]));
    let m = |es: Vec<(MK, MV)>| {
        let mut es = es;
        es.sort();
        MV::Map(es)
    };
    v.push(m(vec![]));
    v.push(m(vec![(MK::Str("a".into()), MV::Int(1))]));
    v.push(m(vec![(MK::Str("a".into()), MV::f(1.0))]));
    v.push(m(vec![(MK::Str("a".into()), MV::Int(2))]));
    v.push(m(vec![(MK::Str("b".into()), MV::Int(1))]));
    v.push(m(vec![(MK::Int(1), MV::s("x"))]));
    v.push(m(vec![(MK::Uint(1), MV::s("x"))]));
    v.push(m(vec![(MK::Bool(true), MV::Int(1))]));
    v.push(m(vec![(MK::Str("a".into()), MV::f(f64::NAN))]));
    v.push(m(vec![(MK::Str("a".into()), MV::Int(1)), (MK::Str("b".into()), MV::Int(2))]));
    v.push(MV::Duration(0, 0));
    v.push(MV::Duration(1, 0));
    v.push(MV::Duration(-1, 999_999_999));
    v.push(MV::Timestamp(0, 0, 0));
    v.push(MV::Timestamp(0, 0, 3600));
    v.push(MV::Timestamp(1, 0, -3600));
    if thorough {
        for k in [31u32, 32, 52, 54, 62] {
            let p = 1i64 << k;
            for d in [-1i64, 0, 1] {
                v.push(MV::Int(p + d));
                v.push(MV::Int(-(p + d)));
                v.push(MV::Uint((p + d) as u64));
            }
            v.push(MV::f(p as f64));
            v.push(MV::f(-(p as f64)));
            v.push(MV::f(next_up(p as f64)));
            v.push(MV::f(next_down(p as f64)));
        }
        for f in [f64::MIN_POSITIVE, -f64::MIN_POSITIVE, f64::MAX, f64::MIN, 0.1, -0.1, 1e19, 1.8446744073709552e19, 9.223372036854775e18, 4503599627370496.5] {
            v.push(MV::f(f));
        }
    }
    let mut out: Vec<MV> = vec![];
    for x in v {
        if !out.contains(&x) {
            out.push(x);
        }
    }
    out
}

const RELS: [&str; 6] = ["<", "<=", ">", ">=", "==", "!="];

/// Tri-state of a relational result.
#[derive(Clone, Copy, PartialEq, Debug)]
pub enum T {
    True,
    False,
    Err,
    Bad,
}

fn tri(o: &Out) -> T {
    match o {
        Out::Val(MV::Bool(true)) => T::True,
        Out::Val(MV::Bool(false)) => T::False,
        Out::Err(_) => T::Err,
        _ => T::Bad,
    }
}

fn twin_ambiguous(a: &MV, b: &MV) -> bool {
    match (a, b) {
        (MV::Map(x), MV::Map(y)) => {
            x.iter().any(|(k1, _)| y.iter().any(|(k2, _)| k1 != k2 && k1.num().is_some() && k1.num() == k2.num()))
                || x.iter().zip(y.iter()).any(|((_, p), (_, q))| twin_ambiguous(p, q))
        }
        (MV::List(x), MV::List(y)) => x.iter().zip(y.iter()).any(|(p, q)| twin_ambiguous(p, q)),
        _ => false,
    }
}

pub fn run(run: &mut Run) {
    let vs = value_set(!run.quick());
    let n = vs.len();
    run.rep.extra.insert("value_set".into(), json!(n));
    let vals: Vec<Value> = vs.iter().map(|m| m.to_value()).collect();
    let progs: Vec<Program> = RELS.iter().map(|r| Program::compile(&format!("a {} b", r)).unwrap()).collect();
    let p_in = Program::compile("a in [b]").unwrap();

    // full relation matrix (needed by every worker for the converse and transitivity laws);
    // these executions are not counted, the sharded pass below re-executes and counts them
    let mut mat: Vec<[T; 6]> = Vec::with_capacity(n * n);
    for i in 0..n {
        for j in 0..n {
            let mut ctx = Context::default();
            ctx.add_variable_from_value("a", vals[i].clone());
            ctx.add_variable_from_value("b", vals[j].clone());
            let mut row = [T::Bad; 6];
            for (r, p) in progs.iter().enumerate() {
                row[r] = tri(&subj::exec(p, &ctx));
            }
            mat.push(row);
        }
        crate::core::heartbeat();
    }
    let at = |i: usize, j: usize| &mat[i * n + j];

    // ---- pairs through compiled programs over variables
    run.sub("pairs-var");
    for i in 0..n {
        for j in 0..n {
            if !run.take() {
                continue;
            }
            let (a, b) = (&vs[i], &vs[j]);
            let mut ctx = Context::default();
            ctx.add_variable_from_value("a", vals[i].clone());
            ctx.add_variable_from_value("b", vals[j].clone());
            let outs: Vec<Out> = progs.iter().map(|p| subj::exec(p, &ctx)).collect();
            let o_in = subj::exec(&p_in, &ctx);
            run.trans(7);
            // host-side operators
            let (va, vb) = (vals[i].clone(), vals[j].clone());
            let direct = guard(|| (va == vb, va.partial_cmp(&vb)));
            run.trans(2);
            let row: Vec<T> = outs.iter().map(tri).collect();
            check_pair(run, "var", a, b, &row, Some(tri(&o_in)), direct, at(j, i));
        }
    }

    // ---- literal-expressible subset as literals
    run.sub("pairs-lit");
    let empty = Context::default();
    let lits: Vec<Option<String>> = vs.iter().map(cel_lit).collect();
    for i in 0..n {
        for j in 0..n {
            let (Some(la), Some(lb)) = (&lits[i], &lits[j]) else { continue };
            for (r, rel) in RELS.iter().enumerate() {
                if !run.take() {
                    continue;
                }
                let src = format!("{} {} {}", la, rel, lb);
                let o = subj::run_src(&src, &empty);
                run.trans(2);
                run.validated();
                let t = tri(&o);
                run.class(&format!("lit:{}:{:?}", rel, t), || json!({"src": src, "got": o.show()}));
                // the literal path must agree with the variable path (which is checked against the oracle)
                if t != at(i, j)[r] {
                    run.fail(
                        &format!("C09|lit-vs-var|{}|{}-{}|lit={:?}|var={:?}", rel, vs[i].kind(), vs[j].kind(), t, at(i, j)[r]),
                        format!("{} gave {} but the same comparison over variables gave {:?}", src, o.show(), at(i, j)[r]),
                        json!({"src": src}),
                    );
                }
            }
        }
    }

    // ---- transitivity over all triples of the matrix
    run.sub("triples");
    for i in 0..n {
        for j in 0..n {
            if !run.take() {
                continue;
            }
            let ab = at(i, j);
            if ab[0] != T::True && ab[1] != T::True {
                continue;
            }
            for k in 0..n {
                let bc = at(j, k);
                let ac = at(i, k);
                run.rep.extra.entry("sum_triples_checked".into()).and_modify(|e| *e = json!(e.as_u64().unwrap() + 1)).or_insert(json!(1));
                if ab[0] == T::True && bc[0] == T::True && ac[0] != T::True {
                    run.fail(
                        &format!("C09|transitivity|<|{}-{}-{}", vs[i].kind(), vs[j].kind(), vs[k].kind()),
                        format!("a<b and b<c but a<c is {:?}: a={} b={} c={}", ac[0], vs[i].show(), vs[j].show(), vs[k].show()),
                        json!({"a": vs[i].show(), "b": vs[j].show(), "c": vs[k].show()}),
                    );
                }
                if ab[1] == T::True && bc[1] == T::True && ac[1] != T::True {
                    run.fail(
                        &format!("C09|transitivity|<=|{}-{}-{}", vs[i].kind(), vs[j].kind(), vs[k].kind()),
                        format!("a<=b and b<=c but a<=c is {:?}: a={} b={} c={}", ac[1], vs[i].show(), vs[j].show(), vs[k].show()),
                        json!({"a": vs[i].show(), "b": vs[j].show(), "c": vs[k].show()}),
                    );
                }
            }
            run.validated();
        }
    }

    // ---- min / max
    let cmp_sets: Vec<(&str, Vec<usize>)> = vec![
        ("numeric", (0..n).filter(|&i| num(&vs[i]).is_some() && vs[i] != MV::f(f64::NAN)).collect()),
        ("string", (0..n).filter(|&i| matches!(vs[i], MV::Str(_))).collect()),
    ];
    let p_min_l = Program::compile("min(l)").unwrap();
    let p_max_l = Program::compile("max(l)").unwrap();
    let p_min_a = [Program::compile("min(a)").unwrap(), Program::compile("min(a, b)").unwrap(), Program::compile("min(a, b, c)").unwrap()];
    let p_max_a = [Program::compile("max(a)").unwrap(), Program::compile("max(a, b)").unwrap(), Program::compile("max(a, b, c)").unwrap()];
    for (name, idxs) in cmp_sets.iter() {
        // the numeric set is thinned for length-3 lists in the quick tier
        run.sub(&format!("minmax-{}", name));
        let m = idxs.len();
        for len in 1..=3usize {
            let total = m.pow(len as u32);
            for code in 0..total {
                if !run.take() {
                    continue;
                }
                let mut c = code;
                let mut el = vec![];
                for _ in 0..len {
                    el.push(idxs[c % m]);
                    c /= m;
                }
                let items: Vec<MV> = el.iter().map(|&i| vs[i].clone()).collect();
                let mut ctx = Context::default();
                ctx.add_variable_from_value("l", Value::List(std::sync::Arc::new(el.iter().map(|&i| vals[i].clone()).collect())));
                for (nm, &i) in ["a", "b", "c"].iter().zip(el.iter()) {
                    ctx.add_variable_from_value(*nm, vals[i].clone());
                }
                let outs = [
                    ("min(l)", subj::exec(&p_min_l, &ctx), false),
                    ("max(l)", subj::exec(&p_max_l, &ctx), true),
                    ("min(args)", subj::exec(&p_min_a[len - 1], &ctx), false),
                    ("max(args)", subj::exec(&p_max_a[len - 1], &ctx), true),
                ];
                run.trans(4);
                run.validated();
                if len > 1 {
                    run.nontrivial();
                }
                for (form, o, is_max) in outs.iter() {
                    // a single non-list argument form `min(a)` returns a itself: covered by the same rule
                    let ok = match o {
                        Out::Val(r) => {
                            items.iter().any(|x| x == r)
                                && items.iter().all(|x| {
                                    let o = match (num(r), num(x)) {
                                        (Some(p), Some(q)) => cmp_num(p, q),
                                        _ => match (r, x) {
                                            (MV::Str(p), MV::Str(q)) => Some(p.cmp(q)),
                                            _ => None,
                                        },
                                    };
                                    match o {
                                        Some(Ordering::Less) => !*is_max,
                                        Some(Ordering::Greater) => *is_max,
                                        Some(Ordering::Equal) => true,
                                        None => false,
                                    }
                                })
                        }
                        _ => false,
                    };
                    run.class(&format!("{}:{}:{}", name, form, o.tag()), || json!({"form": form, "items": items.iter().map(|x| x.show()).collect::<Vec<_>>(), "got": o.show()}));
                    if !ok {
                        run.fail(
                            &format!("C09|{}|{}|len{}|got={}", form, name, len, o.tag()),
                            format!("{} over {:?} gave {}", form, items.iter().map(|x| x.show()).collect::<Vec<_>>(), o.show()),
                            json!({"form": form, "items": items.iter().map(|x| x.show()).collect::<Vec<_>>()}),
                        );
                    }
                }
            }
        }
    }
}

#[allow(clippy::too_many_arguments)]
fn check_pair(
    run: &mut Run,
    form: &str,
    a: &MV,
    b: &MV,
    row: &[T],
    t_in: Option<T>,
    direct: Result<(bool, Option<Ordering>), String>,
    conv: &[T; 6],
) {
    run.validated();
    let spec = model_ord(a, b);
    let ambiguous = twin_ambiguous(a, b);
    let eq = model_eq(a, b);
    let kinds = format!("{}-{}", a.kind(), b.kind());
    if a.kind() != b.kind() || matches!(spec, OrdSpec::MustErr) || (num(a).is_some() && a != b) {
        run.nontrivial();
    }
    let desc = || json!({"a": a.show(), "b": b.show(), "row(<,<=,>,>=,==,!=)": format!("{:?}", row)});
    run.class(&format!("{}:{}:{:?}", form, kinds, row), desc);
    let mut bad = |run: &mut Run, law: &str, detail: String| {
        run.fail(&format!("C09|{}|{}|{}", form, law, kinds), format!("{} [a={} b={}] row(<,<=,>,>=,==,!=)={:?}", detail, a.show(), b.show(), row), json!({"a": a.show(), "b": b.show()}));
    };
    let (lt, le, gt, ge, e, ne) = (row[0], row[1], row[2], row[3], row[4], row[5]);
    // == and != are total and complementary
    if !(matches!(e, T::True | T::False) && matches!(ne, T::True | T::False)) {
        bad(run, "eq-total", format!("== gave {:?}, != gave {:?}", e, ne));
    } else if (e == T::True) == (ne == T::True) {
        bad(run, "ne-is-not-eq", "a != b is not the negation of a == b".into());
    }
    if !ambiguous && matches!(e, T::True | T::False) && (e == T::True) != eq {
        bad(run, "eq-value", format!("a == b is {:?}, exact comparison says {}", e, eq));
    }
    if let Some(t) = t_in {
        if matches!(e, T::True | T::False) && t != e {
            bad(run, "in-vs-eq", format!("a in [b] is {:?} but a == b is {:?}", t, e));
        }
    }
    // ordering
    let defined = [lt, le, gt, ge].iter().filter(|t| matches!(t, T::True | T::False)).count();
    if [lt, le, gt, ge].iter().any(|t| *t == T::Bad) {
        bad(run, "rel-outcome", "a relation returned a non-bool or panicked".into());
    }
    match spec {
        OrdSpec::MustErr => {
            if defined != 0 {
                bad(run, "must-be-unordered", "values are unordered (NaN or unrelated types) but a relation returned a bool".into());
            }
        }
        OrdSpec::Must(o) => {
            let want = [o == Ordering::Less, o != Ordering::Greater, o == Ordering::Greater, o != Ordering::Less];
            for (k, w) in want.iter().enumerate() {
                let g = row[k];
                if g != if *w { T::True } else { T::False } {
                    bad(run, &format!("rel-value{}", RELS[k]), format!("a {} b is {:?}, exact comparison says {}", RELS[k], g, w));
                }
            }
        }
        OrdSpec::Unspecified => {}
    }
    if defined > 0 {
        // laws wherever < is defined
        if defined != 4 {
            bad(run, "partially-defined", "some relations are defined and others are errors for the same pair".into());
        } else {
            let cnt = [lt == T::True, e == T::True, gt == T::True].iter().filter(|x| **x).count();
            if cnt != 1 {
                bad(run, "trichotomy", format!("exactly one of a<b, a==b, a>b must hold, {} do", cnt));
            }
            if (le == T::True) != (lt == T::True || e == T::True) {
                bad(run, "le-law", "a<=b is not (a<b || a==b)".into());
            }
            if (ge == T::True) != (gt == T::True || e == T::True) {
                bad(run, "ge-law", "a>=b is not (a>b || a==b)".into());
            }
            if conv[2] != lt {
                bad(run, "converse", format!("a<b is {:?} but b>a is {:?}", lt, conv[2]));
            }
        }
    }
    // host-side operators agree with the language operators
    match direct {
        Err(p) => bad(run, "direct-panic", format!("Value::eq / partial_cmp panicked: {}", p)),
        Ok((deq, dord)) => {
            if matches!(e, T::True | T::False) && deq != (e == T::True) {
                bad(run, "direct-eq", format!("Value::eq gives {} but a == b gives {:?}", deq, e));
            }
            let dl = match dord {
                Some(o) => {
                    if o == Ordering::Less {
                        T::True
                    } else {
                        T::False
                    }
                }
                None => T::Err,
            };
            if dl != lt {
                bad(run, "direct-ord", format!("Value::partial_cmp gives {:?} but a < b gives {:?}", dord, lt));
            }
        }
    }
}

//! C10 — comprehension macros compute their defining folds.
use crate::core::Run;
use crate::hosts;
use crate::mv::{Out, MK, MV};
use crate::props::c03::{compare, exp_tag};
use crate::reval::{b, call, eval, Env, Ev, Host, E};
use crate::subj;
use cel_interpreter::{Context, Program};
use serde_json::json;
use std::collections::HashMap;

const FORMS: [(&str, usize); 7] = [("all", 2), ("exists", 2), ("exists_one", 2), ("existsOne", 2), ("map", 2), ("map", 3), ("filter", 2)];

fn x() -> E {
    E::Var("x".into())
}
fn y() -> E {
    E::Var("y".into())
}

/// scripted behaviours: p = predicate, tr = transform
fn model_env() -> Env {
    let mut env = Env::new();
    let mut p = HashMap::new();
    // element -> behaviour of the predicate
    for (k, c) in [(1, 'T'), (2, 'T'), (9, 'F'), (3, 'F'), (0, 'E')] {
        p.insert(k, c);
    }
    let mut tr = HashMap::new();
    for (k, c) in [(1, 'T'), (2, 'E'), (9, 'F'), (3, 'E'), (0, 'T')] {
        tr.insert(k, c);
    }
    env.hosts.insert("p".into(), Host::Script(p));
    env.hosts.insert("tr".into(), Host::Script(tr));
    env
}

fn macro_expr(form: (&'static str, usize), range: E, var: &str, pred: E, transform: E) -> E {
    let (m, arity) = form;
    let args = match (m, arity) {
        ("map", 2) => vec![transform],
        ("map", 3) => vec![pred, transform],
        _ => vec![pred],
    };
    E::Macro(m, b(range), var.to_string(), args)
}

fn ints(v: &[i64]) -> MV {
    MV::List(v.iter().map(|i| MV::Int(*i)).collect())
}

fn all_lists(alphabet: &[i64], max_len: usize) -> Vec<Vec<i64>> {
    let mut out = vec![vec![]];
    let mut last: Vec<Vec<i64>> = vec![vec![]];
    for _ in 0..max_len {
        let mut next = vec![];
        for l in &last {
            for a in alphabet {
                let mut n = l.clone();
                n.push(*a);
                next.push(n);
            }
        }
        out.extend(next.iter().cloned());
        last = next;
    }
    out
}

fn judge(run: &mut Run, family: &str, form: &str, e: &E, src_note: &str, env: &mut Env, got: &Out, got_log: &[Ev]) {
    let exp = {
        env.log.clear();
        eval(e, env)
    };
    let exp_log = env.log.clone();
    let verdict = compare(&exp, got);
    let case = || json!({"program": src_note, "expected": format!("{:?}", exp), "got": got.show()});
    run.class(&format!("{}:{}:{}:{}", family, form, exp_tag(&exp), got.tag()), case);
    match verdict {
        None => {
            if let Out::Panic(p) = got {
                run.fail(&format!("C10|{}|{}|panic", family, form), format!("{} panicked: {}", src_note, p), case());
            }
        }
        Some(ok) => {
            run.validated();
            run.nontrivial();
            if !ok {
                run.fail(
                    &format!("C10|{}|{}|result|expect={}|got={}", family, form, exp_tag(&exp), got.tag()),
                    format!("{} : the fold gives {:?}, implementation gave {}", src_note, exp, got.show()),
                    case(),
                );
            } else if got_log != exp_log.as_slice() {
                run.fail(
                    &format!("C10|{}|{}|visit-log", family, form),
                    format!("{} : visited {:?} but the fold visits {:?}", src_note, got_log.iter().map(show_ev).collect::<Vec<_>>(), exp_log.iter().map(show_ev).collect::<Vec<_>>()),
                    case(),
                );
            }
        }
    }
}

fn show_ev(e: &Ev) -> String {
    match e {
        Ev::Call(n, a) => format!("{}({})", n, a.iter().map(|x| x.show()).collect::<Vec<_>>().join(",")),
        Ev::Enter(i) => format!("<{}", i),
        Ev::Exit(i) => format!("{}>", i),
    }
}

pub fn run(run: &mut Run) {
    let mut env = model_env();
    let log = hosts::new_log();
    let base_ctx = hosts::context_for(&env, &log);
    let pred_pure = E::Bin(">", b(E::Bin("/", b(E::Lit(MV::Int(10))), b(x()))), b(E::Lit(MV::Int(2))));
    let pred_host = call("p", vec![x()]);
    let tr_host = call("tr", vec![x()]);
    let tr_pure = E::Bin("/", b(E::Lit(MV::Int(10))), b(x()));

    // ---- every list of length 0..6 over {T,F,E} (map/3: 0..5 over the 5 behaviours), range as a variable
    let l3 = all_lists(&[1, 9, 0], 6);
    let l5 = all_lists(&[1, 2, 9, 3, 0], 5);
    for (fi, form) in FORMS.iter().enumerate() {
        for (bi, (pred, tr)) in [(pred_host.clone(), tr_host.clone()), (pred_pure.clone(), tr_pure.clone())].iter().enumerate() {
            run.sub(&format!("lists-{}{}-body{}", form.0, form.1, bi));
            let e_var = macro_expr(*form, E::Var("l".into()), "x", pred.clone(), tr.clone());
            let prog = Program::compile(&e_var.src()).expect("macro program compiles");
            let lists = if form.1 == 3 { &l5 } else { &l3 };
            for l in lists.iter() {
                if !run.take() {
                    continue;
                }
                let mut ctx = base_ctx.new_inner_scope();
                ctx.add_variable_from_value("l", ints(l).to_value());
                log.lock().unwrap().clear();
                let got = subj::exec(&prog, &ctx);
                run.trans(1);
                let got_log = log.lock().unwrap().clone();
                env.frames.truncate(1);
                env.set("l", ints(l));
                judge(run, "list-var", &format!("{}{}", form.0, form.1), &e_var, &format!("`{}` with l={:?}", e_var.src(), l), &mut env, &got, &got_log);
                let _ = fi;
            }
        }
    }

    // ---- the same with the list written as a literal (compile + execute), lengths 0..4
    run.sub("lists-literal");
    let l3s = all_lists(&[1, 9, 0], run.pick(3, 4));
    for form in FORMS.iter() {
        for l in l3s.iter() {
            if !run.take() {
                continue;
            }
            let e = macro_expr(*form, E::Lit(ints(l)), "x", pred_host.clone(), tr_host.clone());
            let src = e.src();
            log.lock().unwrap().clear();
            let got = subj::run_src(&src, &base_ctx);
            run.trans(2);
            let got_log = log.lock().unwrap().clone();
            env.frames.truncate(1);
            judge(run, "list-lit", &format!("{}{}", form.0, form.1), &e, &format!("`{}`", src), &mut env, &got, &got_log);
        }
    }

    // ---- the range is a list literal of *expressions*: elements that read an outer variable named
    //      like the iteration variable, and logging host calls. The whole range is evaluated, left
    //      to right, in the enclosing scope, before the first body evaluation (lengths 0..3 over 6
    //      element expressions; outer x = 1)
    run.sub("range-expressions");
    {
        env.hosts.insert("id".into(), Host::Ident);
        let ctx0 = hosts::context_for(&env, &log);
        let mut ctx = ctx0.new_inner_scope();
        ctx.add_variable_from_value("x", 1i64);
        let int = |v: i64| E::Lit(MV::Int(v));
        let elems: Vec<E> = vec![
            x(),
            E::Bin("+", b(x()), b(int(8))),
            E::Bin("-", b(x()), b(int(1))),
            call("id", vec![int(9)]),
            call("id", vec![x()]),
            E::Bin("/", b(int(1)), b(E::Bin("-", b(x()), b(int(1))))),
        ];
        let mut ranges: Vec<Vec<usize>> = vec![vec![]];
        let mut last: Vec<Vec<usize>> = vec![vec![]];
        for _ in 0..3 {
            let mut next = vec![];
            for l in &last {
                for a in 0..elems.len() {
                    let mut n = l.clone();
                    n.push(a);
                    next.push(n);
                }
            }
            ranges.extend(next.iter().cloned());
            last = next;
        }
        for form in FORMS.iter() {
            for (pred, tr) in [(pred_host.clone(), tr_host.clone()), (pred_pure.clone(), tr_pure.clone())].iter() {
                for r in ranges.iter() {
                    if !run.take() {
                        continue;
                    }
                    let range = E::List(r.iter().map(|k| elems[*k].clone()).collect());
                    // the macro, then the outer name again (must still be the outer value)
                    let e = E::List(vec![macro_expr(*form, range, "x", pred.clone(), tr.clone()), x()]);
                    let src = e.src();
                    log.lock().unwrap().clear();
                    let got = subj::run_src(&src, &ctx);
                    run.trans(2);
                    let got_log = log.lock().unwrap().clone();
                    env.frames.truncate(1);
                    env.set("x", MV::Int(1));
                    judge(run, "range-expr", &format!("{}{}", form.0, form.1), &e, &format!("`{}` with x=1", src), &mut env, &got, &got_log);
                }
            }
        }
        env.frames.truncate(1);
        env.hosts.remove("id");
    }

    // ---- neighbouring elements that are equal but distinguishable (1, 1u, 1.0; 0.0, -0.0; [3],
    //      [3.0]): every element itself is bound, and results keep each element's own type
    run.sub("twin-elements");
    {
        let elems: Vec<MV> = vec![MV::Int(1), MV::Uint(1), MV::f(1.0), MV::Int(2), MV::f(0.0), MV::f(-0.0), MV::List(vec![MV::Int(3)]), MV::List(vec![MV::f(3.0)])];
        let mut lists: Vec<Vec<usize>> = vec![vec![]];
        let mut last: Vec<Vec<usize>> = vec![vec![]];
        for _ in 0..3 {
            let mut next = vec![];
            for l in &last {
                for a in 0..elems.len() {
                    let mut n = l.clone();
                    n.push(a);
                    next.push(n);
                }
            }
            lists.extend(next.iter().cloned());
            last = next;
        }
        let int = |v: i64| E::Lit(MV::Int(v));
        // (predicate, transform) pairs that depend on the element's type, not only on its numeric value
        let bodies: Vec<(E, E)> = vec![
            (E::Bin(">", b(E::Bin("/", b(x()), b(E::Bin("+", b(x()), b(x()))))), b(int(0))), x()),
            (E::Bin("==", b(call("string", vec![x()])), b(E::Lit(MV::s("1")))), call("string", vec![x()])),
            (E::Bin(">", b(E::Bin("+", b(x()), b(int(1)))), b(int(0))), E::Bin("+", b(x()), b(int(1)))),
            (E::Bin("==", b(x()), b(x())), E::List(vec![x(), x()])),
        ];
        for form in FORMS.iter() {
            for (pred_b, tr_b) in bodies.iter() {
                for l in lists.iter() {
                    for lit_range in [false, true] {
                        if !run.take() {
                            continue;
                        }
                        let lv = MV::List(l.iter().map(|k| elems[*k].clone()).collect());
                        let range = if lit_range { E::Lit(lv.clone()) } else { E::Var("l".into()) };
                        let e = macro_expr(*form, range, "x", pred_b.clone(), tr_b.clone());
                        let mut ctx = base_ctx.new_inner_scope();
                        ctx.add_variable_from_value("l", lv.to_value());
                        log.lock().unwrap().clear();
                        let got = subj::run_src(&e.src(), &ctx);
                        run.trans(2);
                        let got_log = log.lock().unwrap().clone();
                        env.frames.truncate(1);
                        env.set("l", lv.clone());
                        judge(run, "twins", &format!("{}{}", form.0, form.1), &e, &format!("`{}` with l={}", e.src(), lv.show()), &mut env, &got, &got_log);
                    }
                }
            }
        }
        env.frames.truncate(1);
    }

    // ---- maps: the macro ranges over the keys; iteration order is read from the same map value
    run.sub("maps");
    let order_prog = Program::compile("m.map(k, k)").unwrap();
    let key_sets = all_lists(&[1, 9, 0, 2], 4);
    // bodies: the scripted host predicate / transform, and the constant bodies `true` / `false`
    // (a macro over a map yields a list / a bool whatever its body is)
    let map_bodies: Vec<(E, E)> = vec![
        (pred_host.clone(), tr_host.clone()),
        (E::Lit(MV::Bool(true)), x()),
        (E::Lit(MV::Bool(false)), x()),
        (E::Lit(MV::Bool(true)), E::Lit(MV::Bool(true))),
    ];
    for form in FORMS.iter() {
      for (pred_b, tr_b) in map_bodies.iter() {
        let e_var = macro_expr(*form, E::Var("m".into()), "x", pred_b.clone(), tr_b.clone());
        let prog = Program::compile(&e_var.src()).unwrap();
        for ks in key_sets.iter() {
            // distinct keys only
            let mut d = ks.clone();
            d.sort();
            d.dedup();
            if d.len() != ks.len() {
                continue;
            }
            if !run.take() {
                continue;
            }
            let m = MV::Map({
                let mut es: Vec<(MK, MV)> = ks.iter().map(|k| (MK::Int(*k), MV::Int(k * 10))).collect();
                es.sort();
                es
            });
            let mut ctx = base_ctx.new_inner_scope();
            ctx.add_variable_from_value("m", m.to_value());
            // observed key order of this very map instance
            let order = match subj::exec(&order_prog, &ctx) {
                Out::Val(MV::List(xs)) => xs,
                other => {
                    run.fail("C10|maps|key-order-probe", format!("m.map(k, k) over {} gave {}", m.show(), other.show()), json!({"m": m.show()}));
                    continue;
                }
            };
            let mut sorted: Vec<MV> = order.clone();
            sorted.sort();
            let mut want: Vec<MV> = ks.iter().map(|k| MV::Int(*k)).collect();
            want.sort();
            if sorted != want {
                run.fail("C10|maps|keys-visited", format!("m.map(k, k) over {} visited {:?}", m.show(), order), json!({"m": m.show()}));
                continue;
            }
            log.lock().unwrap().clear();
            let got = subj::exec(&prog, &ctx);
            run.trans(2);
            let got_log = log.lock().unwrap().clone();
            // model: the same macro over the keys in the observed order
            let e_model = macro_expr(*form, E::Lit(MV::List(order.clone())), "x", pred_b.clone(), tr_b.clone());
            env.frames.truncate(1);
            judge(run, "map", &format!("{}{}", form.0, form.1), &e_model, &format!("`{}` with m={} (key order {:?})", e_var.src(), m.show(), order), &mut env, &got, &got_log);
            // the same over the map written as a literal when the key order cannot matter
            if ks.len() <= 1 {
                let e_lit = macro_expr(*form, E::Lit(m.clone()), "x", pred_b.clone(), tr_b.clone());
                log.lock().unwrap().clear();
                let got = subj::run_src(&e_lit.src(), &base_ctx);
                run.trans(2);
                let got_log = log.lock().unwrap().clone();
                env.frames.truncate(1);
                judge(run, "map-lit", &format!("{}{}", form.0, form.1), &e_model, &format!("`{}`", e_lit.src()), &mut env, &got, &got_log);
            }
        }
      }
    }

    // ---- constant bodies over lists (variable and literal ranges, lengths 0..3)
    run.sub("constant-bodies");
    {
        let ls = all_lists(&[1, 9, 0], 3);
        let bodies: Vec<(E, E)> = vec![
            (E::Lit(MV::Bool(true)), x()),
            (E::Lit(MV::Bool(false)), x()),
            (E::Lit(MV::Bool(true)), E::Lit(MV::Bool(true))),
            (E::Lit(MV::Bool(true)), E::Lit(MV::Null)),
            (E::Bin("==", b(x()), b(x())), E::Lit(MV::List(vec![]))),
            // bodies that ignore the iteration variable but are observable: a logging call with a
            // constant argument (once per element, never for an empty range) and an error
            (call("p", vec![E::Lit(MV::Int(1))]), call("tr", vec![E::Lit(MV::Int(1))])),
            (call("p", vec![E::Lit(MV::Int(9))]), call("tr", vec![E::Lit(MV::Int(2))])),
            (E::Bin("==", b(E::Bin("/", b(E::Lit(MV::Int(1))), b(E::Lit(MV::Int(0))))), b(E::Lit(MV::Int(1)))), E::Bin("/", b(E::Lit(MV::Int(1))), b(E::Lit(MV::Int(0))))),
            (call("p", vec![E::Lit(MV::Int(0))]), x()),
        ];
        for form in FORMS.iter() {
            for (pred_b, tr_b) in bodies.iter() {
                for l in ls.iter() {
                    for lit_range in [false, true] {
                        if !run.take() {
                            continue;
                        }
                        let range = if lit_range { E::Lit(ints(l)) } else { E::Var("l".into()) };
                        let e = macro_expr(*form, range, "x", pred_b.clone(), tr_b.clone());
                        let mut ctx = base_ctx.new_inner_scope();
                        ctx.add_variable_from_value("l", ints(l).to_value());
                        log.lock().unwrap().clear();
                        let got = subj::run_src(&e.src(), &ctx);
                        run.trans(2);
                        let got_log = log.lock().unwrap().clone();
                        env.frames.truncate(1);
                        env.set("l", ints(l));
                        judge(run, "const-body", &format!("{}{}", form.0, form.1), &e, &format!("`{}` with l={:?}", e.src(), l), &mut env, &got, &got_log);
                    }
                }
            }
        }
        env.frames.truncate(1);
    }

    // ---- chained macros: a list-valued macro as the range of another one, with the same and with
    //      a different variable name, every list of length 0..4
    run.sub("chained");
    {
        let l4 = all_lists(&[1, 2, 9, 3, 0], run.pick(3, 4));
        let firsts: [(&'static str, usize); 3] = [("map", 2), ("map", 3), ("filter", 2)];
        for f1 in firsts.iter() {
            for f2 in FORMS.iter() {
                for same_var in [true, false] {
                    let v2 = if same_var { "x" } else { "y" };
                    let first = match f1 {
                        // the first stage yields ints again so that the second stage's predicate applies
                        ("map", 2) => E::Macro("map", b(E::Var("l".into())), "x".into(), vec![E::Cond(b(call("p", vec![x()])), b(E::Lit(MV::Int(9))), b(E::Lit(MV::Int(1))))]),
                        ("map", 3) => E::Macro("map", b(E::Var("l".into())), "x".into(), vec![call("p", vec![x()]), E::Bin("+", b(x()), b(E::Lit(MV::Int(1))))]),
                        _ => E::Macro("filter", b(E::Var("l".into())), "x".into(), vec![call("p", vec![x()])]),
                    };
                    let pv = call("tr", vec![E::Var(v2.into())]);
                    let e = macro_expr(*f2, first, v2, pv.clone(), pv);
                    let prog = Program::compile(&e.src()).expect("chained program compiles");
                    for l in l4.iter() {
                        if !run.take() {
                            continue;
                        }
                        let mut ctx = base_ctx.new_inner_scope();
                        ctx.add_variable_from_value("l", ints(l).to_value());
                        log.lock().unwrap().clear();
                        let got = subj::exec(&prog, &ctx);
                        run.trans(1);
                        let got_log = log.lock().unwrap().clone();
                        env.frames.truncate(1);
                        env.set("l", ints(l));
                        judge(run, "chained", &format!("{}{}>{}{}{}", f1.0, f1.1, f2.0, f2.1, if same_var { "-samevar" } else { "" }), &e, &format!("`{}` with l={:?}", e.src(), l), &mut env, &got, &got_log);
                    }
                }
            }
        }
    }

    // ---- two-deep nesting: all 49 form pairs over every list of lists
    let inner_len = run.pick(2usize, 3usize);
    let inner_lists = all_lists(&[1, 9, 0], inner_len);
    let mut outer: Vec<Vec<usize>> = vec![vec![]];
    {
        let mut last: Vec<Vec<usize>> = vec![vec![]];
        for _ in 0..inner_len {
            let mut next = vec![];
            for l in &last {
                for a in 0..inner_lists.len() {
                    let mut n = l.clone();
                    n.push(a);
                    next.push(n);
                }
            }
            outer.extend(next.iter().cloned());
            last = next;
        }
    }
    for fo in FORMS.iter() {
        for fi in FORMS.iter() {
            run.sub(&format!("nested-{}{}-{}{}", fo.0, fo.1, fi.0, fi.1));
            let inner = macro_expr(*fi, y(), "x", pred_host.clone(), tr_host.clone());
            let inner_bool = matches!(fi.0, "all" | "exists" | "exists_one" | "existsOne");
            let as_pred = if inner_bool { inner.clone() } else { E::Bin(">", b(call("size", vec![inner.clone()])), b(E::Lit(MV::Int(0)))) };
            let e = macro_expr(*fo, E::Var("ll".into()), "y", as_pred, inner.clone());
            let prog = Program::compile(&e.src()).expect("nested program compiles");
            for o in outer.iter() {
                if !run.take() {
                    continue;
                }
                let ll = MV::List(o.iter().map(|&k| ints(&inner_lists[k])).collect());
                let mut ctx = base_ctx.new_inner_scope();
                ctx.add_variable_from_value("ll", ll.to_value());
                log.lock().unwrap().clear();
                let got = subj::exec(&prog, &ctx);
                run.trans(1);
                let got_log = log.lock().unwrap().clone();
                env.frames.truncate(1);
                env.set("ll", ll.clone());
                judge(run, "nested", &format!("{}{}-{}{}", fo.0, fo.1, fi.0, fi.1), &e, &format!("`{}` with ll={}", e.src(), ll.show()), &mut env, &got, &got_log);
            }
        }
    }
    let _ = Context::default;
}

//! C03 — evaluation of the core language agrees with the reference semantics.
use crate::core::Run;
use crate::hosts;
use crate::mv::{Out, EC, MK, MV};
use crate::reval::{b, call, eval, mcall, Env, Stop, E, R};
use crate::subj;
use crate::tspace::{Prod, TypedSpace};
use cel_interpreter::Context;
use serde_json::json;

pub const INT: usize = 0;
pub const UINT: usize = 1;
pub const DBL: usize = 2;
pub const BOOL: usize = 3;
pub const STR: usize = 4;
pub const BYTES: usize = 5;
pub const NULL: usize = 6;
pub const LINT: usize = 7;
pub const LSTR: usize = 8;
pub const MSI: usize = 9;
pub const MIS: usize = 10;
pub const TYPE_NAMES: [&str; 11] = ["int", "uint", "double", "bool", "string", "bytes", "null", "list<int>", "list<string>", "map<string,int>", "map<int,string>"];

fn l(v: MV) -> E {
    E::Lit(v)
}
fn v(n: &str) -> E {
    E::Var(n.to_string())
}
fn ms(k: &str) -> MK {
    MK::Str(k.to_string())
}

pub fn base_env() -> Env {
    let mut env = Env::new();
    env.set("i", MV::Int(2));
    env.set("u", MV::Uint(3));
    env.set("d", MV::f(1.5));
    env.set("t", MV::Bool(true));
    env.set("s", MV::s("ab"));
    env.set("by", MV::Bytes(b"a".to_vec()));
    env.set("li", MV::List(vec![MV::Int(1), MV::Int(2), MV::Int(3)]));
    env.set("ls", MV::List(vec![MV::s("a"), MV::s("b")]));
    env.set("msi", MV::Map(vec![(ms("a"), MV::Int(1)), (ms("k"), MV::Int(2))]));
    env.set("mis", MV::Map(vec![(MK::Int(1), MV::s("x")), (MK::Int(2), MV::s("y"))]));
    env
}

pub fn leaves() -> Vec<Vec<E>> {
    vec![
        vec![l(MV::Int(0)), l(MV::Int(1)), l(MV::Int(-1)), v("i"), l(MV::Int(i64::MAX)), l(MV::Int(i64::MIN))],
        vec![l(MV::Uint(0)), l(MV::Uint(1)), v("u"), l(MV::Uint(u64::MAX))],
        vec![l(MV::f(0.0)), l(MV::f(1.5)), l(MV::f(-2.5)), v("d"), l(MV::f(1e300))],
        vec![l(MV::Bool(true)), l(MV::Bool(false)), v("t")],
        vec![l(MV::s("")), l(MV::s("a")), l(MV::s("ab")), v("s"), l(MV::s("\u{e9}a"))],
        vec![l(MV::Bytes(vec![])), l(MV::Bytes(b"a".to_vec())), v("by")],
        vec![l(MV::Null)],
        vec![E::List(vec![]), E::List(vec![l(MV::Int(1)), l(MV::Int(2)), l(MV::Int(3))]), v("li")],
        vec![E::List(vec![l(MV::s("a"))]), v("ls")],
        vec![E::Map(vec![(l(MV::s("a")), l(MV::Int(1)))]), v("msi")],
        vec![E::Map(vec![(l(MV::Int(1)), l(MV::s("x")))]), v("mis")],
    ]
}

/// the iteration variable of a macro takes the place of the context variable `i` in its body
fn subst(e: &E, from: &str, to: &str) -> E {
    match e {
        E::Var(n) if n == from => E::Var(to.to_string()),
        E::Lit(_) | E::Var(_) => e.clone(),
        E::Un(o, x) => E::Un(o, b(subst(x, from, to))),
        E::Bin(o, x, y) => E::Bin(o, b(subst(x, from, to)), b(subst(y, from, to))),
        E::Cond(x, y, z) => E::Cond(b(subst(x, from, to)), b(subst(y, from, to)), b(subst(z, from, to))),
        E::Index(x, y) => E::Index(b(subst(x, from, to)), b(subst(y, from, to))),
        E::Select(x, f) => E::Select(b(subst(x, from, to)), f.clone()),
        E::Has(x, f) => E::Has(b(subst(x, from, to)), f.clone()),
        E::Call(n, r, a) => E::Call(n.clone(), r.as_ref().map(|r| b(subst(r, from, to))), a.iter().map(|x| subst(x, from, to)).collect()),
        E::List(a) => E::List(a.iter().map(|x| subst(x, from, to)).collect()),
        E::Map(a) => E::Map(a.iter().map(|(k, x)| (subst(k, from, to), subst(x, from, to))).collect()),
        E::Macro(m, r, var, a) => E::Macro(m, b(subst(r, from, to)), var.clone(), a.iter().map(|x| subst(x, from, to)).collect()),
    }
}

fn p(res: usize, kids: &[usize], name: &'static str, f: impl Fn(Vec<E>) -> E + Send + Sync + 'static) -> Prod {
    Prod { res, kids: kids.to_vec(), name, build: Box::new(f) }
}

fn bin(op: &'static str) -> impl Fn(Vec<E>) -> E + Send + Sync + 'static {
    move |mut k: Vec<E>| {
        let r = k.pop().unwrap();
        let l = k.pop().unwrap();
        E::Bin(op, b(l), b(r))
    }
}

pub fn prods() -> Vec<Prod> {
    let mut ps: Vec<Prod> = vec![];
    // arithmetic
    for op in ["+", "-", "*", "/", "%"] {
        ps.push(p(INT, &[INT, INT], op, bin(op)));
        ps.push(p(UINT, &[UINT, UINT], op, bin(op)));
        if op != "%" {
            ps.push(p(DBL, &[DBL, DBL], op, bin(op)));
        }
    }
    ps.push(p(INT, &[INT], "neg", |mut k| E::Un("-", b(k.pop().unwrap()))));
    ps.push(p(DBL, &[DBL], "neg", |mut k| E::Un("-", b(k.pop().unwrap()))));
    ps.push(p(STR, &[STR, STR], "concat", bin("+")));
    ps.push(p(LINT, &[LINT, LINT], "concat", bin("+")));
    ps.push(p(LSTR, &[LSTR, LSTR], "concat", bin("+")));
    // size
    for t in [STR, LINT, MSI, BYTES, LSTR] {
        ps.push(p(INT, &[t], "size()", |k| call("size", k)));
    }
    ps.push(p(INT, &[STR], ".size()", |mut k| mcall(k.pop().unwrap(), "size", vec![])));
    ps.push(p(INT, &[LINT], ".size()", |mut k| mcall(k.pop().unwrap(), "size", vec![])));
    // indexing / selection
    ps.push(p(INT, &[LINT, INT], "index", |mut k| {
        let i = k.pop().unwrap();
        E::Index(b(k.pop().unwrap()), b(i))
    }));
    ps.push(p(STR, &[LSTR, INT], "index", |mut k| {
        let i = k.pop().unwrap();
        E::Index(b(k.pop().unwrap()), b(i))
    }));
    ps.push(p(INT, &[MSI, STR], "index", |mut k| {
        let i = k.pop().unwrap();
        E::Index(b(k.pop().unwrap()), b(i))
    }));
    ps.push(p(STR, &[MIS, INT], "index", |mut k| {
        let i = k.pop().unwrap();
        E::Index(b(k.pop().unwrap()), b(i))
    }));
    ps.push(p(STR, &[MIS, UINT], "index-twin", |mut k| {
        let i = k.pop().unwrap();
        E::Index(b(k.pop().unwrap()), b(i))
    }));
    ps.push(p(INT, &[MSI], "select-a", |mut k| E::Select(b(k.pop().unwrap()), "a".into())));
    ps.push(p(INT, &[MSI], "select-zz", |mut k| E::Select(b(k.pop().unwrap()), "zz".into())));
    ps.push(p(BOOL, &[MSI], "has-a", |mut k| E::Has(b(k.pop().unwrap()), "a".into())));
    ps.push(p(BOOL, &[MSI], "has-zz", |mut k| E::Has(b(k.pop().unwrap()), "zz".into())));
    // conditional
    for t in [INT, UINT, DBL, BOOL, STR, LINT] {
        ps.push(p(t, &[BOOL, t, t], "?:", |mut k| {
            let e = k.pop().unwrap();
            let th = k.pop().unwrap();
            E::Cond(b(k.pop().unwrap()), b(th), b(e))
        }));
    }
    // conversions
    ps.push(p(INT, &[UINT], "int()", |k| call("int", k)));
    ps.push(p(INT, &[DBL], "int()", |k| call("int", k)));
    ps.push(p(INT, &[DBL], ".int()", |mut k| mcall(k.pop().unwrap(), "int", vec![])));
    ps.push(p(UINT, &[INT], "uint()", |k| call("uint", k)));
    ps.push(p(UINT, &[DBL], "uint()", |k| call("uint", k)));
    ps.push(p(DBL, &[INT], "double()", |k| call("double", k)));
    ps.push(p(DBL, &[UINT], "double()", |k| call("double", k)));
    ps.push(p(STR, &[INT], "string()", |k| call("string", k)));
    ps.push(p(STR, &[UINT], "string()", |k| call("string", k)));
    ps.push(p(STR, &[STR], "string()", |k| call("string", k)));
    ps.push(p(STR, &[BYTES], "string()", |k| call("string", k)));
    ps.push(p(BYTES, &[STR], "bytes()", |k| call("bytes", k)));
    // min / max
    ps.push(p(INT, &[LINT], "min(list)", |k| call("min", k)));
    ps.push(p(INT, &[LINT], "max(list)", |k| call("max", k)));
    ps.push(p(INT, &[INT, INT], "max(a,b)", |k| call("max", k)));
    ps.push(p(DBL, &[DBL, DBL], "min(a,b)", |k| call("min", k)));
    // logic
    ps.push(p(BOOL, &[BOOL], "!", |mut k| E::Un("!", b(k.pop().unwrap()))));
    ps.push(p(BOOL, &[BOOL, BOOL], "&&", bin("&&")));
    ps.push(p(BOOL, &[BOOL, BOOL], "||", bin("||")));
    // relations
    for op in ["<", "<=", ">", ">="] {
        for t in [INT, UINT, DBL, STR] {
            ps.push(p(BOOL, &[t, t], op, bin(op)));
        }
    }
    for (a, c) in [(INT, UINT), (INT, DBL), (UINT, DBL), (DBL, INT), (UINT, INT)] {
        ps.push(p(BOOL, &[a, c], "<x", bin("<")));
        ps.push(p(BOOL, &[a, c], ">=x", bin(">=")));
    }
    for op in ["==", "!="] {
        for t in [INT, UINT, DBL, STR, BOOL, BYTES, NULL, LINT, LSTR, MSI, MIS] {
            ps.push(p(BOOL, &[t, t], op, bin(op)));
        }
        for (a, c) in [(INT, UINT), (INT, DBL), (DBL, UINT), (INT, STR), (NULL, INT), (LINT, LSTR), (BOOL, STR)] {
            ps.push(p(BOOL, &[a, c], op, bin(op)));
        }
    }
    // membership
    for (a, c) in [(INT, LINT), (STR, LSTR), (STR, MSI), (INT, MIS), (UINT, MIS), (DBL, LINT), (STR, LINT)] {
        ps.push(p(BOOL, &[a, c], "in", bin("in")));
    }
    // string functions, both call styles
    for f in ["contains", "startsWith", "endsWith"] {
        ps.push(p(BOOL, &[STR, STR], f, move |mut k| {
            let a = k.pop().unwrap();
            mcall(k.pop().unwrap(), f, vec![a])
        }));
    }
    ps.push(p(BOOL, &[STR, STR], "startsWith()", |k| call("startsWith", k)));
    ps.push(p(BOOL, &[STR], "matches-^a", |mut k| mcall(k.pop().unwrap(), "matches", vec![E::Lit(MV::s("^a"))])));
    ps.push(p(BOOL, &[STR], "matches-b$", |k| call("matches", vec![k[0].clone(), E::Lit(MV::s("b$"))])));
    ps.push(p(BOOL, &[LINT, INT], "list.contains", |mut k| {
        let a = k.pop().unwrap();
        mcall(k.pop().unwrap(), "contains", vec![a])
    }));
    ps.push(p(BOOL, &[MSI, STR], "map.contains", |mut k| {
        let a = k.pop().unwrap();
        mcall(k.pop().unwrap(), "contains", vec![a])
    }));
    // macros (typed bodies; `x` takes the place of `i` / `s` in the body)
    for m in ["all", "exists", "exists_one"] {
        ps.push(p(BOOL, &[LINT, BOOL], m, move |mut k| {
            let body = subst(&k.pop().unwrap(), "i", "x");
            E::Macro(m, b(k.pop().unwrap()), "x".into(), vec![body])
        }));
    }
    ps.push(p(BOOL, &[LSTR, BOOL], "exists-str", |mut k| {
        let body = subst(&k.pop().unwrap(), "s", "x");
        E::Macro("exists", b(k.pop().unwrap()), "x".into(), vec![body])
    }));
    ps.push(p(LINT, &[LINT, INT], "map", |mut k| {
        let body = subst(&k.pop().unwrap(), "i", "x");
        E::Macro("map", b(k.pop().unwrap()), "x".into(), vec![body])
    }));
    ps.push(p(LSTR, &[LINT, STR], "map->str", |mut k| {
        let body = subst(&k.pop().unwrap(), "i", "x");
        E::Macro("map", b(k.pop().unwrap()), "x".into(), vec![body])
    }));
    ps.push(p(LINT, &[LINT, BOOL], "filter", |mut k| {
        let body = subst(&k.pop().unwrap(), "i", "x");
        E::Macro("filter", b(k.pop().unwrap()), "x".into(), vec![body])
    }));
    ps.push(p(LINT, &[LINT, BOOL, INT], "map3", |mut k| {
        let body = subst(&k.pop().unwrap(), "i", "x");
        let f = subst(&k.pop().unwrap(), "i", "x");
        E::Macro("map", b(k.pop().unwrap()), "x".into(), vec![f, body])
    }));
    ps.push(p(LSTR, &[MSI], "map-keys", |mut k| E::Macro("map", b(k.pop().unwrap()), "x".into(), vec![E::Var("x".into())])));
    // ill-matched operand types are errors, not coercions
    for (a, c) in [(INT, UINT), (DBL, INT), (STR, INT), (LINT, INT), (UINT, DBL), (BOOL, INT), (NULL, INT)] {
        ps.push(p(INT, &[a, c], "+mixed", bin("+")));
        ps.push(p(INT, &[a, c], "*mixed", bin("*")));
    }
    // further collection / string forms
    ps.push(p(INT, &[MIS], "size(mis)", |k| call("size", k)));
    ps.push(p(INT, &[MSI], ".size(msi)", |mut k| mcall(k.pop().unwrap(), "size", vec![])));
    ps.push(p(BOOL, &[LSTR, STR], "lstr.contains", |mut k| {
        let a = k.pop().unwrap();
        mcall(k.pop().unwrap(), "contains", vec![a])
    }));
    ps.push(p(BOOL, &[MIS, INT], "mis.contains", |mut k| {
        let a = k.pop().unwrap();
        mcall(k.pop().unwrap(), "contains", vec![a])
    }));
    ps.push(p(BOOL, &[MIS, UINT], "mis.contains-twin", |mut k| {
        let a = k.pop().unwrap();
        mcall(k.pop().unwrap(), "contains", vec![a])
    }));
    ps.push(p(STR, &[STR, STR], "max(s,s)", |k| call("max", k)));
    ps.push(p(STR, &[LSTR], "min(lstr)", |k| call("min", k)));
    ps.push(p(UINT, &[UINT, UINT], "min(u,u)", |k| call("min", k)));
    ps.push(p(BOOL, &[MSI, BOOL], "msi.all", |mut k| {
        let body = subst(&k.pop().unwrap(), "s", "x");
        E::Macro("all", b(k.pop().unwrap()), "x".into(), vec![body])
    }));
    ps.push(p(BOOL, &[LSTR, BOOL], "lstr.exists_one", |mut k| {
        let body = subst(&k.pop().unwrap(), "s", "x");
        E::Macro("exists_one", b(k.pop().unwrap()), "x".into(), vec![body])
    }));
    ps.push(p(LSTR, &[LSTR, BOOL], "lstr.filter", |mut k| {
        let body = subst(&k.pop().unwrap(), "s", "x");
        E::Macro("filter", b(k.pop().unwrap()), "x".into(), vec![body])
    }));
    ps.push(p(LSTR, &[LSTR, STR], "lstr.map", |mut k| {
        let body = subst(&k.pop().unwrap(), "s", "x");
        E::Macro("map", b(k.pop().unwrap()), "x".into(), vec![body])
    }));
    ps.push(p(MSI, &[STR, INT, STR, INT], "{s:i,s:i}", |mut k| {
        let v2 = k.pop().unwrap();
        let k2 = k.pop().unwrap();
        let v1 = k.pop().unwrap();
        E::Map(vec![(k.pop().unwrap(), v1), (k2, v2)])
    }));
    ps.push(p(BOOL, &[BOOL, BOOL, BOOL], "?:bool-nested", |mut k| {
        let e = k.pop().unwrap();
        let th = k.pop().unwrap();
        E::Bin("&&", b(E::Cond(b(k.pop().unwrap()), b(th), b(e.clone()))), b(e))
    }));
    // literals built from parts
    ps.push(p(LINT, &[INT], "[x]", |k| E::List(k)));
    ps.push(p(LINT, &[INT, INT], "[x,y]", |k| E::List(k)));
    ps.push(p(LSTR, &[STR], "[s]", |k| E::List(k)));
    ps.push(p(MSI, &[STR, INT], "{s:i}", |mut k| {
        let val = k.pop().unwrap();
        E::Map(vec![(k.pop().unwrap(), val)])
    }));
    ps.push(p(MIS, &[INT, STR], "{i:s}", |mut k| {
        let val = k.pop().unwrap();
        E::Map(vec![(k.pop().unwrap(), val)])
    }));
    ps
}

fn ec_ok(expected: &EC, got: &EC) -> bool {
    if expected == got || *got == EC::Other {
        return true;
    }
    // the name a built-in puts into its FunctionError is message text, not a class: only the
    // names of the harness's own host functions (which say *which* body failed) are compared
    if let (EC::Function(a), EC::Function(c)) = (expected, got) {
        return crate::reval::BUILTINS.contains(&a.as_str()) || crate::reval::BUILTINS.contains(&c.as_str());
    }
    false
}

pub fn compare(exp: &R, got: &Out) -> Option<bool> {
    match (exp, got) {
        (Err(Stop::Unspec(_)), _) => None,
        (Ok(e), Out::Val(g)) => Some(e == g),
        (Err(Stop::Err(e)), Out::Err(g)) => Some(ec_ok(e, g)),
        _ => Some(false),
    }
}

pub fn exp_tag(exp: &R) -> String {
    match exp {
        Ok(v) => format!("val:{}", v.kind()),
        Err(Stop::Err(e)) => format!("err:{}", e.tag0()),
        Err(Stop::Unspec(_)) => "unspecified".into(),
    }
}

fn root_shape(e: &E) -> String {
    match e {
        E::Lit(_) => "lit".into(),
        E::Var(_) => "var".into(),
        E::Un(o, _) => format!("un{}", o),
        E::Bin(o, ..) => (*o).into(),
        E::Cond(..) => "?:".into(),
        E::Index(..) => "index".into(),
        E::Select(..) => "select".into(),
        E::Has(..) => "has".into(),
        E::Call(n, r, _) => format!("{}{}", if r.is_some() { "." } else { "" }, n),
        E::List(_) => "list".into(),
        E::Map(_) => "map".into(),
        E::Macro(m, ..) => format!("macro-{}", m),
    }
}

pub fn check_program(run: &mut Run, family: &str, e: &E, ctx: &Context, env: &mut Env) {
    let src = e.src();
    env.log.clear();
    env.steps = 0;
    let exp = eval(e, env);
    let got = subj::run_src(&src, ctx);
    run.trans(2);
    let verdict = compare(&exp, &got);
    let et = exp_tag(&exp);
    run.class(&format!("{}:{}:{}", family, et, got.tag()), || json!({"src": src, "expected": format!("{:?}", exp), "got": got.show()}));
    match verdict {
        None => {
            // no value/error verdict, but a panic is never acceptable
            if let Out::Panic(pn) = &got {
                run.fail(&format!("C03|{}|panic-in-unspecified|root={}", family, root_shape(e)), format!("`{}` panicked: {}", src, pn), json!({"src": src}));
            }
        }
        Some(ok) => {
            run.validated();
            if !matches!(exp, Ok(MV::Bool(_))) || e.size() > 3 {
                run.nontrivial();
            }
            if !ok {
                run.fail(
                    &format!("C03|{}|root={}|expect={}|got={}", family, root_shape(e), et, got.tag()),
                    format!("`{}` : reference says {:?}, implementation gave {}", src, exp, got.show()),
                    json!({"src": src}),
                );
            }
        }
    }
}

pub fn run(run: &mut Run) {
    let max_ops = run.pick(2usize, 3usize);
    let sp = TypedSpace::new(leaves(), prods(), max_ops);
    let mut env = base_env();
    let log = hosts::new_log();
    let ctx = hosts::context_for(&env, &log);
    for n in 0..=max_ops {
        run.sub(&format!("typed-{}op", n));
        for ty in 0..sp.ntypes {
            let cnt = sp.count(ty, n);
            let mut i: u128 = 0;
            while i < cnt {
                if run.take() {
                    let e = sp.unrank(ty, n, i);
                    check_program(run, &format!("typed{}", n), &e, &ctx, &mut env);
                }
                i += 1;
            }
        }
    }
    for ty in 0..sp.ntypes {
        for n in 0..=max_ops {
            run.rep.extra.insert(format!("count_{}_{}op", TYPE_NAMES[ty], n), json!(sp.count(ty, n).to_string()));
        }
    }

    // ---- error precedence: in every n-ary construct, two operands fail with different error
    //      classes in every pair of positions; the leftmost failure must win
    run.sub("error-precedence");
    {
        let li = |i: i64| E::Lit(MV::Int(i));
        let errs: Vec<(&str, E)> = vec![
            ("divzero", E::Bin("/", b(li(1)), b(li(0)))),
            ("overflow", E::Bin("+", b(li(i64::MAX)), b(li(1)))),
            ("nokey", E::Select(b(E::Map(vec![(E::Lit(MV::s("a")), li(1))])), "zz".into())),
            ("undeclared", E::Var("nope".into())),
            ("conv", call("uint", vec![li(-1)])),
            ("type", E::Bin("+", b(li(1)), b(E::Lit(MV::s("s"))))),
        ];
        let ok = |k: i64| li(10 + k);
        // constructs as (name, arity, builder)
        type B = Box<dyn Fn(Vec<E>) -> E>;
        let cons: Vec<(&str, usize, B)> = vec![
            ("list3", 3, Box::new(|k| E::List(k))),
            ("map2-k1v1k2v2", 4, Box::new(|k| E::Map(vec![(k[0].clone(), k[1].clone()), (k[2].clone(), k[3].clone())]))),
            ("max3", 3, Box::new(|k| call("max", k))),
            ("plus", 2, Box::new(|k| E::Bin("+", b(k[0].clone()), b(k[1].clone())))),
            ("less", 2, Box::new(|k| E::Bin("<", b(k[0].clone()), b(k[1].clone())))),
            ("eq", 2, Box::new(|k| E::Bin("==", b(k[0].clone()), b(k[1].clone())))),
            ("in", 2, Box::new(|k| E::Bin("in", b(k[0].clone()), b(E::List(vec![k[1].clone()]))))),
            ("index", 2, Box::new(|k| E::Index(b(E::List(vec![k[0].clone()])), b(k[1].clone())))),
            ("cond-c-t", 2, Box::new(|k| E::Cond(b(E::Bin(">", b(k[0].clone()), b(E::Lit(MV::Int(0))))), b(k[1].clone()), b(E::Lit(MV::Int(0)))))),
            ("recv-arg", 2, Box::new(|k| mcall(E::List(vec![k[0].clone()]), "contains", vec![k[1].clone()]))),
            ("args2", 2, Box::new(|k| call("startsWith", vec![call("string", vec![k[0].clone()]), call("string", vec![k[1].clone()])]))),
            ("nested-list", 2, Box::new(|k| E::List(vec![E::List(vec![k[0].clone()]), k[1].clone()]))),
            ("macro-range-body", 2, Box::new(|k| E::Macro("map", b(E::List(vec![k[0].clone()])), "x".into(), vec![k[1].clone()]))),
        ];
        for (cname, arity, build) in cons.iter() {
            for i in 0..*arity {
                for j in (i + 1)..*arity {
                    for (n1, e1) in errs.iter() {
                        for (n2, e2) in errs.iter() {
                            if n1 == n2 {
                                continue;
                            }
                            if !run.take() {
                                continue;
                            }
                            let kids: Vec<E> = (0..*arity).map(|p| if p == i { e1.clone() } else if p == j { e2.clone() } else { ok(p as i64) }).collect();
                            let e = build(kids);
                            check_program(run, &format!("errprec-{}", cname), &e, &ctx, &mut env);
                        }
                    }
                }
            }
        }
    }

    // ---- aliasing: one variable (in particular collections holding NaN) read several times in one
    //      expression: every read denotes the same value and equality is decided by contents
    run.sub("aliasing");
    {
        let nan = MV::f(f64::NAN);
        let xs: Vec<MV> = vec![
            MV::List(vec![nan.clone()]),
            MV::List(vec![MV::Int(1), nan.clone()]),
            MV::List(vec![MV::List(vec![nan.clone()])]),
            MV::Map(vec![(ms("a"), nan.clone())]),
            MV::Map(vec![(ms("a"), MV::List(vec![nan.clone()]))]),
            nan.clone(),
            MV::List(vec![MV::Int(1)]),
            MV::Map(vec![(ms("a"), MV::Int(1))]),
            MV::s("ab"),
            MV::Bytes(vec![1]),
            MV::List(vec![]),
        ];
        let x = || v("x");
        let y = || v("y");
        let bx = |e: E| Box::new(e);
        let templates: Vec<(&str, E)> = vec![
            ("x==x", E::Bin("==", bx(x()), bx(x()))),
            ("x!=x", E::Bin("!=", bx(x()), bx(x()))),
            ("x in [x]", E::Bin("in", bx(x()), bx(E::List(vec![x()])))),
            ("[x]==[x]", E::Bin("==", bx(E::List(vec![x()])), bx(E::List(vec![x()])))),
            ("[x, x]==[x, x]", E::Bin("==", bx(E::List(vec![x(), x()])), bx(E::List(vec![x(), x()])))),
            ("{'k': x}=={'k': x}", E::Bin("==", bx(E::Map(vec![(l(MV::s("k")), x())])), bx(E::Map(vec![(l(MV::s("k")), x())])))),
            ("[x].all(y, y==y)", E::Macro("all", bx(E::List(vec![x()])), "y".into(), vec![E::Bin("==", bx(y()), bx(y()))])),
            ("[x].all(y, y==x)", E::Macro("all", bx(E::List(vec![x()])), "y".into(), vec![E::Bin("==", bx(y()), bx(x()))])),
            ("[x].exists(y, y in [x])", E::Macro("exists", bx(E::List(vec![x()])), "y".into(), vec![E::Bin("in", bx(y()), bx(E::List(vec![x()])))])),
            ("[x].map(y, y==y)", E::Macro("map", bx(E::List(vec![x()])), "y".into(), vec![E::Bin("==", bx(y()), bx(y()))])),
            ("[x].filter(y, y!=y)", E::Macro("filter", bx(E::List(vec![x()])), "y".into(), vec![E::Bin("!=", bx(y()), bx(y()))])),
            ("x==x ? 1 : 2", E::Cond(bx(E::Bin("==", bx(x()), bx(x()))), bx(l(MV::Int(1))), bx(l(MV::Int(2))))),
            ("(x==x) || (x!=x)", E::Bin("||", bx(E::Bin("==", bx(x()), bx(x()))), bx(E::Bin("!=", bx(x()), bx(x()))))),
            ("[x, x][0]==[x, x][1]", E::Bin("==", bx(E::Index(bx(E::List(vec![x(), x()])), bx(l(MV::Int(0))))), bx(E::Index(bx(E::List(vec![x(), x()])), bx(l(MV::Int(1))))))),
            ("{'k': x}.k=={'k': x}.k", E::Bin("==", bx(E::Select(bx(E::Map(vec![(l(MV::s("k")), x())])), "k".into())), bx(E::Select(bx(E::Map(vec![(l(MV::s("k")), x())])), "k".into())))),
            ("[[double('NaN')]].all(y, y==y)", E::Macro("all", bx(E::List(vec![E::List(vec![call("double", vec![l(MV::s("NaN"))])])])), "y".into(), vec![E::Bin("==", bx(y()), bx(y()))])),
        ];
        for xv in xs.iter() {
            env.frames.truncate(1);
            env.set("x", xv.clone());
            let ctx2 = hosts::context_for(&env, &log);
            for (_name, e) in templates.iter() {
                if !run.take() {
                    continue;
                }
                check_program(run, "aliasing", e, &ctx2, &mut env);
            }
        }
        env = base_env();
    }

    // ---- spines: every type-consistent chain of unary contexts up to depth 6 (quick 4)
    let depth = run.pick(4usize, 6usize);
    let ws = wrappers();
    let lv = leaves();
    run.sub("spines");
    // iterative DFS over chains; the chain is a list of wrapper indices
    let mut stack: Vec<(usize, Vec<usize>)> = (0..11).map(|t| (t, vec![])).collect();
    while let Some((ty, chain)) = stack.pop() {
        if !chain.is_empty() {
            // apply to every leaf of the innermost type
            let t0 = ws[chain[0]].0;
            for leaf in &lv[t0] {
                if !run.take() {
                    continue;
                }
                let mut e = leaf.clone();
                for &w in &chain {
                    e = (ws[w].2)(e);
                }
                check_program(run, "spine", &e, &ctx, &mut env);
            }
        }
        if chain.len() < depth {
            for (wi, w) in ws.iter().enumerate() {
                if w.0 == ty {
                    let mut c = chain.clone();
                    c.push(wi);
                    stack.push((w.1, c));
                }
            }
        }
    }
}

type Wrapper = (usize, usize, Box<dyn Fn(E) -> E>);

/// unary typed contexts: an operator with fixed well-typed siblings
fn wrappers() -> Vec<Wrapper> {
    let li = |i: i64| E::Lit(MV::Int(i));
    let w = |a: usize, c: usize, f: Box<dyn Fn(E) -> E>| -> Wrapper { (a, c, f) };
    vec![
        w(INT, INT, Box::new(move |e| E::Bin("+", b(e), b(E::Lit(MV::Int(1)))))),
        w(INT, INT, Box::new(move |e| E::Bin("*", b(E::Lit(MV::Int(2))), b(e)))),
        w(INT, INT, Box::new(|e| E::Un("-", b(e)))),
        w(INT, INT, Box::new(|e| E::Bin("%", b(e), b(E::Lit(MV::Int(-1)))))),
        w(INT, BOOL, Box::new(|e| E::Bin("<", b(e), b(E::Var("i".into()))))),
        w(INT, LINT, Box::new(|e| E::List(vec![e, E::Lit(MV::Int(7))]))),
        w(INT, DBL, Box::new(|e| call("double", vec![e]))),
        w(INT, UINT, Box::new(|e| call("uint", vec![e]))),
        w(INT, STR, Box::new(|e| call("string", vec![e]))),
        w(UINT, INT, Box::new(|e| call("int", vec![e]))),
        w(UINT, UINT, Box::new(|e| E::Bin("-", b(e), b(E::Lit(MV::Uint(1)))))),
        w(DBL, INT, Box::new(|e| call("int", vec![e]))),
        w(DBL, DBL, Box::new(|e| E::Bin("/", b(e), b(E::Lit(MV::f(0.0)))))),
        w(DBL, BOOL, Box::new(|e| E::Bin(">=", b(e), b(E::Lit(MV::Int(1)))))),
        w(BOOL, BOOL, Box::new(|e| E::Un("!", b(e)))),
        w(BOOL, BOOL, Box::new(|e| E::Bin("&&", b(e), b(E::Var("t".into()))))),
        w(BOOL, BOOL, Box::new(|e| E::Bin("||", b(E::Lit(MV::Bool(false))), b(e)))),
        w(BOOL, INT, Box::new(move |e| E::Cond(b(e), b(li(1)), b(E::Bin("/", b(li(1)), b(li(0))))))),
        w(BOOL, LINT, Box::new(|e| E::Macro("filter", b(E::Var("li".into())), "x".into(), vec![e]))),
        w(STR, STR, Box::new(|e| E::Bin("+", b(e), b(E::Lit(MV::s("z")))))),
        w(STR, INT, Box::new(|e| call("size", vec![e]))),
        w(STR, BOOL, Box::new(|e| mcall(e, "startsWith", vec![E::Lit(MV::s("a"))]))),
        w(STR, MSI, Box::new(|e| E::Map(vec![(e, E::Lit(MV::Int(5)))]))),
        w(STR, BYTES, Box::new(|e| call("bytes", vec![e]))),
        w(BYTES, STR, Box::new(|e| call("string", vec![e]))),
        w(LINT, LINT, Box::new(|e| E::Bin("+", b(e), b(E::Var("li".into()))))),
        w(LINT, LINT, Box::new(|e| E::Macro("map", b(e), "x".into(), vec![E::Bin("*", b(E::Var("x".into())), b(E::Lit(MV::Int(2))))]))),
        w(LINT, INT, Box::new(|e| E::Index(b(e), b(E::Lit(MV::Int(1)))))),
        w(LINT, INT, Box::new(|e| call("size", vec![e]))),
        w(LINT, BOOL, Box::new(|e| E::Macro("all", b(e), "x".into(), vec![E::Bin(">", b(E::Var("x".into())), b(E::Lit(MV::Int(0))))]))),
        w(LINT, BOOL, Box::new(|e| E::Bin("in", b(E::Lit(MV::Int(2))), b(e)))),
        w(MSI, INT, Box::new(|e| E::Select(b(e), "a".into()))),
        w(MSI, BOOL, Box::new(|e| E::Has(b(e), "k".into()))),
        w(MSI, INT, Box::new(|e| E::Index(b(e), b(E::Lit(MV::s("k")))))),
        w(LSTR, STR, Box::new(|e| E::Index(b(e), b(E::Lit(MV::Int(0)))))),
        w(MIS, STR, Box::new(|e| E::Index(b(e), b(E::Lit(MV::Int(1)))))),
        w(NULL, BOOL, Box::new(|e| E::Bin("==", b(e), b(E::Lit(MV::Null))))),
    ]
}

//! C16 — timestamps keep the instant and calendar fields they were given.
use crate::core::Run;
use crate::mv::{Out, MV};
use crate::subj;
use cel_interpreter::{Context, Program, Value};
use serde_json::json;

/// proleptic Gregorian days since 1970-01-01 (independent of chrono)
pub fn days_from_civil(y: i64, m: i64, d: i64) -> i64 {
    let y = if m <= 2 { y - 1 } else { y };
    let era = if y >= 0 { y } else { y - 399 } / 400;
    let yoe = y - era * 400;
    let mp = (m + 9) % 12;
    let doy = (153 * mp + 2) / 5 + d - 1;
    let doe = yoe * 365 + yoe / 4 - yoe / 100 + doy;
    era * 146097 + doe - 719468
}

pub fn is_leap(y: i64) -> bool {
    (y % 4 == 0 && y % 100 != 0) || y % 400 == 0
}

pub fn days_in_month(y: i64, m: i64) -> i64 {
    match m {
        1 | 3 | 5 | 7 | 8 | 10 | 12 => 31,
        4 | 6 | 9 | 11 => 30,
        _ => {
            if is_leap(y) {
                29
            } else {
                28
            }
        }
    }
}

#[derive(Clone, Copy, Debug)]
pub struct Local {
    pub y: i64,
    pub mo: i64,
    pub d: i64,
    pub h: i64,
    pub mi: i64,
    pub s: i64,
    pub ns: i64,
    /// offset east of UTC in seconds
    pub off: i64,
}

impl Local {
    pub fn text(&self) -> String {
        let frac = if self.ns == 0 {
            String::new()
        } else {
            let mut f = format!("{:09}", self.ns);
            while f.ends_with('0') {
                f.pop();
            }
            format!(".{}", f)
        };
        let off = if self.off == 0 {
            "Z".to_string()
        } else {
            let a = self.off.abs();
            format!("{}{:02}:{:02}", if self.off < 0 { '-' } else { '+' }, a / 3600, (a % 3600) / 60)
        };
        format!("{:04}-{:02}-{:02}T{:02}:{:02}:{:02}{}{}", self.y, self.mo, self.d, self.h, self.mi, self.s, frac, off)
    }
    /// (utc seconds since epoch, nanos)
    pub fn instant(&self) -> (i64, i64) {
        let days = days_from_civil(self.y, self.mo, self.d);
        (days * 86400 + self.h * 3600 + self.mi * 60 + self.s - self.off, self.ns)
    }
    pub fn day_of_year0(&self) -> i64 {
        days_from_civil(self.y, self.mo, self.d) - days_from_civil(self.y, 1, 1)
    }
    pub fn weekday_sun0(&self) -> i64 {
        (days_from_civil(self.y, self.mo, self.d) + 4).rem_euclid(7)
    }
    /// the same instant seen at another offset
    pub fn at_offset(&self, off: i64) -> Local {
        let (secs, ns) = self.instant();
        let local = secs + off;
        let days = local.div_euclid(86400);
        let sod = local.rem_euclid(86400);
        let (y, mo, d) = civil_from_days(days);
        Local { y, mo, d, h: sod / 3600, mi: (sod % 3600) / 60, s: sod % 60, ns, off }
    }
}

pub fn civil_from_days(z: i64) -> (i64, i64, i64) {
    let z = z + 719468;
    let era = if z >= 0 { z } else { z - 146096 } / 146097;
    let doe = z - era * 146097;
    let yoe = (doe - doe / 1460 + doe / 36524 - doe / 146096) / 365;
    let y = yoe + era * 400;
    let doy = doe - (365 * yoe + yoe / 4 - yoe / 100);
    let mp = (5 * doy + 2) / 153;
    let d = doy - (153 * mp + 2) / 5 + 1;
    let m = if mp < 10 { mp + 3 } else { mp - 9 };
    (if m <= 2 { y + 1 } else { y }, m, d)
}

const ACCESSORS: [&str; 10] = ["getFullYear", "getMonth", "getDayOfMonth", "getDate", "getDayOfYear", "getDayOfWeek", "getHours", "getMinutes", "getSeconds", "getMilliseconds"];

fn expected_field(l: &Local, k: usize) -> i64 {
    match k {
        0 => l.y,
        1 => l.mo - 1,
        2 => l.d - 1,
        3 => l.d,
        4 => l.day_of_year0(),
        5 => l.weekday_sun0(),
        6 => l.h,
        7 => l.mi,
        8 => l.s,
        _ => l.ns / 1_000_000,
    }
}

fn ts_instant(v: &Out) -> Option<(i64, i64, i64)> {
    match v {
        Out::Val(MV::Timestamp(s, n, o)) => Some((*s, *n as i64, *o as i64)),
        _ => None,
    }
}

pub fn run(run: &mut Run) {
    let thorough = !run.quick();
    let base = Context::default();
    let acc: Vec<Program> = ACCESSORS.iter().map(|a| Program::compile(&format!("timestamp(v).{}()", a)).unwrap()).collect();
    let acc_global: Vec<Program> = ACCESSORS.iter().map(|a| Program::compile(&format!("{}(timestamp(v))", a)).unwrap()).collect();
    let acc_var: Vec<Program> = ACCESSORS.iter().map(|a| Program::compile(&format!("t.{}()", a)).unwrap()).collect();
    let p_parse = Program::compile("timestamp(v)").unwrap();
    let p_rt = Program::compile("timestamp(string(timestamp(v))) == timestamp(v)").unwrap();
    let p_eq = Program::compile("timestamp(v) == timestamp(w)").unwrap();
    let p_lt = Program::compile("timestamp(v) < timestamp(w)").unwrap();
    let p_ge = Program::compile("timestamp(v) >= timestamp(w)").unwrap();
    let years: Vec<i64> = if thorough {
        (1..=9999).collect()
    } else {
        vec![1, 2, 4, 100, 400, 1000, 1582, 1583, 1600, 1700, 1899, 1900, 1969, 1970, 1999, 2000, 2023, 2024, 2038, 2100, 2400, 9996, 9998, 9999]
    };
    let times: [(i64, i64, i64, i64); 3] = [(0, 0, 0, 0), (12, 30, 15, 500_000_000), (23, 59, 59, 999_999_999)];
    let offsets: Vec<i64> = if thorough { vec![-12 * 3600, 0, 14 * 3600] } else { vec![-12 * 3600, -8 * 3600, -1800, 0, 1800, 5 * 3600 + 45 * 60, 9 * 3600, 14 * 3600, -(23 * 3600 + 59 * 60)] };

    run.sub("fields");
    for &y in years.iter() {
        for mo in 1..=12 {
            for d in 1..=days_in_month(y, mo) {
                for (ti, (h, mi, s, ns)) in times.iter().enumerate() {
                    for (oi, &off) in offsets.iter().enumerate() {
                        if !run.take() {
                            continue;
                        }
                        let l = Local { y, mo, d, h: *h, mi: *mi, s: *s, ns: *ns, off };
                        let text = l.text();
                        let mut ctx = base.new_inner_scope();
                        ctx.add_variable_from_value("v", text.clone());
                        let case = || json!({"text": text});
                        // parse: instant and offset preserved
                        let parsed = subj::exec(&p_parse, &ctx);
                        run.trans(1);
                        let (es, ens) = l.instant();
                        let pok = ts_instant(&parsed) == Some((es, ens, off));
                        if !pok {
                            run.fail(&format!("C16|parse|got={}", parsed.tag()), format!("timestamp({:?}) gave {} (expected instant {}s {}ns offset {}s)", text, parsed.show(), es, ens, off), case());
                        }
                        // accessors: receiver style always; global style on a rotating subset
                        for k in 0..10 {
                            let g = subj::exec(&acc[k], &ctx);
                            run.trans(1);
                            let want = expected_field(&l, k);
                            if g != Out::Val(MV::Int(want)) {
                                run.fail(&format!("C16|accessor|{}|got={}", ACCESSORS[k], g.tag()), format!("timestamp({:?}).{}() gave {}, the local field is {}", text, ACCESSORS[k], g.show(), want), case());
                            }
                        }
                        let k = (d as usize + ti + oi) % 10;
                        let g = subj::exec(&acc_global[k], &ctx);
                        run.trans(1);
                        if g != Out::Val(MV::Int(expected_field(&l, k))) {
                            run.fail(&format!("C16|accessor-global|{}|got={}", ACCESSORS[k], g.tag()), format!("{}(timestamp({:?})) gave {}", ACCESSORS[k], text, g.show()), case());
                        }
                        // the same accessors on a host-supplied timestamp value (no text involved)
                        if let Some(utc) = chrono::DateTime::from_timestamp(es, ens as u32) {
                            let tv = Value::Timestamp(utc.with_timezone(&chrono::FixedOffset::east_opt(off as i32).unwrap()));
                            ctx.add_variable_from_value("t", tv);
                            for k2 in [(d as usize + 3 * ti + oi) % 10, (d as usize + 7 * ti + 3 * oi + 5) % 10] {
                                let g = subj::exec(&acc_var[k2], &ctx);
                                run.trans(1);
                                if g != Out::Val(MV::Int(expected_field(&l, k2))) {
                                    run.fail(&format!("C16|accessor-host-value|{}|got={}", ACCESSORS[k2], g.tag()), format!("t.{}() for the host-supplied instant of {} gave {}, the local field is {}", ACCESSORS[k2], text, g.show(), expected_field(&l, k2)), case());
                                }
                            }
                        }
                        // round trip through string()
                        if (d + ti as i64) % 3 == 0 || d == 1 || d >= 28 {
                            let r = subj::exec(&p_rt, &ctx);
                            run.trans(1);
                            if r != Out::Val(MV::Bool(true)) {
                                run.fail(&format!("C16|roundtrip|got={}", r.tag()), format!("timestamp(string(t)) == t is {} for t = {}", r.show(), text), case());
                            }
                        }
                        // the same instant at another offset is equal; one nanosecond later is greater
                        if d == 1 || d >= 28 || thorough && d % 7 == 0 {
                            let other = l.at_offset(offsets[(oi + 1) % offsets.len()]);
                            if other.y >= 1 && other.y <= 9999 {
                                ctx.add_variable_from_value("w", other.text());
                                let e = subj::exec(&p_eq, &ctx);
                                let lt = subj::exec(&p_lt, &ctx);
                                let ge = subj::exec(&p_ge, &ctx);
                                run.trans(3);
                                if e != Out::Val(MV::Bool(true)) || lt != Out::Val(MV::Bool(false)) || ge != Out::Val(MV::Bool(true)) {
                                    run.fail("C16|same-instant-other-offset", format!("{} vs {} (same instant): == {}, < {}, >= {}", text, other.text(), e.show(), lt.show(), ge.show()), case());
                                }
                                let mut later = other;
                                if later.ns < 999_999_999 {
                                    later.ns += 1;
                                    ctx.add_variable_from_value("w", later.text());
                                    let e = subj::exec(&p_eq, &ctx);
                                    let lt = subj::exec(&p_lt, &ctx);
                                    run.trans(2);
                                    if e != Out::Val(MV::Bool(false)) || lt != Out::Val(MV::Bool(true)) {
                                        run.fail("C16|adjacent-instant", format!("{} vs {} (1 ns later): == {}, < {}", text, later.text(), e.show(), lt.show()), case());
                                    }
                                }
                            }
                        }
                        run.validated();
                        run.nontrivial();
                        if d == 1 && mo == 1 {
                            run.class(&format!("fields:year{}:{}", if is_leap(y) { "-leap" } else { "" }, if pok { "ok" } else { "BAD" }), case);
                        }
                    }
                }
            }
        }
    }

    // ---- arithmetic with host-supplied timestamps and durations up to +-292 years
    run.sub("arithmetic");
    let p_add_sub = Program::compile("t + d - d == t").unwrap();
    let p_diff = Program::compile("(t + d) - t == d").unwrap();
    let p_comm = Program::compile("d + t == t + d").unwrap();
    let p_add = Program::compile("t + d").unwrap();
    let p_sub = Program::compile("t - d").unwrap();
    let p_add_rev = Program::compile("d + t").unwrap();
    let p_chain = Program::compile("d + (t - d)").unwrap();
    let durs: Vec<i64> = {
        let mut v: Vec<i64> = vec![0, 1, -1, 999, 1_000_000_000, -1_000_000_000, 86_400_000_000_000, -86_400_000_000_000, i64::MAX, i64::MIN, i64::MAX - 1, i64::MIN + 1];
        for k in [3u32, 6, 10, 12, 15, 18] {
            v.push(10i64.pow(k));
            v.push(-(10i64.pow(k)));
            v.push(10i64.pow(k) + 1);
        }
        for y in [1i64, 100, 291] {
            v.push(y * 365 * 86_400_000_000_000);
            v.push(-(y * 365 * 86_400_000_000_000));
        }
        v
    };
    let ts_years: Vec<i64> = if thorough { (1..=9999).step_by(7).collect() } else { vec![1, 4, 1582, 1900, 1970, 2000, 2024, 2038, 9999] };
    for &y in ts_years.iter() {
        for (mo, d) in [(1i64, 1i64), (2, 28), (3, 1), (12, 31), (6, 15)] {
            for (h, mi, s, ns) in times.iter() {
                for &off in [0i64, 14 * 3600, -12 * 3600].iter() {
                    for &dn in durs.iter() {
                        if !run.take() {
                            continue;
                        }
                        let l = Local { y, mo, d, h: *h, mi: *mi, s: *s, ns: *ns, off };
                        let (es, ens) = l.instant();
                        let utc = match chrono::DateTime::from_timestamp(es, ens as u32) {
                            Some(u) => u,
                            None => continue,
                        };
                        let tv = Value::Timestamp(utc.with_timezone(&chrono::FixedOffset::east_opt(off as i32).unwrap()));
                        let mut ctx = base.new_inner_scope();
                        ctx.add_variable_from_value("t", tv);
                        ctx.add_variable_from_value("d", Value::Duration(chrono::Duration::nanoseconds(dn)));
                        let case = || json!({"t": l.text(), "d_ns": dn});
                        let sum = subj::exec(&p_add, &ctx);
                        let dif = subj::exec(&p_sub, &ctx);
                        let rev = subj::exec(&p_add_rev, &ctx);
                        let chain = subj::exec(&p_chain, &ctx);
                        run.trans(4);
                        run.validated();
                        run.nontrivial();
                        // exact instants
                        let total = es as i128 * 1_000_000_000 + ens as i128;
                        // (every result keeps the zone offset of the timestamp operand, whichever side it is on)
                        let chain_ok = matches!(&dif, Out::Val(_));
                        for (name, got, exact) in [("+", &sum, total + dn as i128), ("-", &dif, total - dn as i128), ("d+t", &rev, total + dn as i128), ("d+(t-d)", &chain, total)] {
                            if name == "d+(t-d)" && !chain_ok {
                                continue;
                            }
                            match got {
                                Out::Val(MV::Timestamp(gs, gn, go)) => {
                                    let g = *gs as i128 * 1_000_000_000 + *gn as i128;
                                    if g != exact || *go as i64 != off {
                                        run.fail(&format!("C16|arith|{}|wrong-instant", name), format!("{} {} {}ns gave {} (exact instant {} ns)", l.text(), name, dn, got.show(), exact), case());
                                    }
                                }
                                Out::Err(_) => run.fail(&format!("C16|arith|{}|unexpected-error", name), format!("{} {} {}ns is representable but gave {}", l.text(), name, dn, got.show()), case()),
                                other => run.fail(&format!("C16|arith|{}|got={}", name, other.tag()), format!("{} {} {}ns gave {}", l.text(), name, dn, other.show()), case()),
                            }
                        }
                        for (name, p) in [("t+d-d==t", &p_add_sub), ("(t+d)-t==d", &p_diff), ("d+t==t+d", &p_comm)] {
                            let g = subj::exec(p, &ctx);
                            run.trans(1);
                            if g != Out::Val(MV::Bool(true)) {
                                run.fail(&format!("C16|law|{}|got={}", name, g.tag()), format!("{} with t={} d={}ns gave {}", name, l.text(), dn, g.show()), case());
                            }
                        }
                        if dn == 0 {
                            run.class("arith", case);
                        }
                    }
                }
            }
        }
    }
    // ---- host-supplied timestamps at chrono's limits: overflow is an error, never a panic
    run.sub("limits");
    let ext_ts = [
        chrono::DateTime::<chrono::Utc>::MIN_UTC.fixed_offset(),
        chrono::DateTime::<chrono::Utc>::MAX_UTC.fixed_offset(),
        chrono::DateTime::<chrono::Utc>::MAX_UTC.with_timezone(&chrono::FixedOffset::west_opt(23 * 3600 + 59 * 60).unwrap()),
        chrono::DateTime::<chrono::Utc>::MIN_UTC.with_timezone(&chrono::FixedOffset::east_opt(23 * 3600 + 59 * 60).unwrap()),
        chrono::DateTime::from_timestamp(0, 0).unwrap().fixed_offset(),
        chrono::DateTime::<chrono::Utc>::MIN_UTC.with_timezone(&chrono::FixedOffset::west_opt(23 * 3600 + 59 * 60).unwrap()),
        chrono::DateTime::<chrono::Utc>::MAX_UTC.with_timezone(&chrono::FixedOffset::east_opt(23 * 3600 + 59 * 60).unwrap()),
    ];
    let ext_d = [chrono::Duration::MAX, chrono::Duration::MIN, chrono::Duration::nanoseconds(i64::MAX), chrono::Duration::nanoseconds(1), chrono::Duration::nanoseconds(-1), chrono::Duration::days(1), chrono::Duration::days(-1)];
    let progs: Vec<(String, Program)> = ["t + d", "t - d", "d + t", "t - u", "t < u", "t == u", "string(t)", "t.getFullYear()", "t.getDayOfYear()", "t.getDayOfWeek()", "t.getMonth()", "t.getMilliseconds()"]
        .iter()
        .map(|s| (s.to_string(), Program::compile(s).unwrap()))
        .collect();
    for t in ext_ts.iter() {
        for u in ext_ts.iter() {
            for d in ext_d.iter() {
                for (src, p) in progs.iter() {
                    if !run.take() {
                        continue;
                    }
                    let mut ctx = base.new_inner_scope();
                    ctx.add_variable_from_value("t", Value::Timestamp(*t));
                    ctx.add_variable_from_value("u", Value::Timestamp(*u));
                    ctx.add_variable_from_value("d", Value::Duration(*d));
                    let g = subj::exec(p, &ctx);
                    run.trans(1);
                    run.validated();
                    run.class(&format!("limits:{}:{}", src, g.tag()), || json!({"src": src, "t": format!("{:?}", t), "d": format!("{:?}", d)}));
                    if let Out::Panic(pn) = &g {
                        run.fail(&format!("C16|limits|{}|panic", src), format!("`{}` with t={:?} u={:?} d={:?} panicked: {}", src, t, u, d, pn), json!({"src": src, "t": format!("{:?}", t), "d": format!("{:?}", d)}));
                    }
                }
            }
        }
    }
}

//! C15 — durations parse, print, add and compare exactly.
use crate::core::Run;
use crate::mv::{Out, MV};
use crate::subj;
use cel_interpreter::{Context, Program, Value};
use serde_json::json;

/// Go's Duration.String re-derived over i128 nanoseconds.
pub fn go_duration(ns: i128) -> String {
    if ns == 0 {
        return "0s".into();
    }
    let neg = ns < 0;
    let u = ns.unsigned_abs();
    fn frac(u: u128, prec: u32) -> String {
        let p = 10u128.pow(prec);
        let int = u / p;
        let fr = u % p;
        if fr == 0 || prec == 0 {
            return int.to_string();
        }
        let mut f = format!("{:0width$}", fr, width = prec as usize);
        while f.ends_with('0') {
            f.pop();
        }
        format!("{}.{}", int, f)
    }
    let body = if u < 1_000_000_000 {
        if u < 1_000 {
            format!("{}ns", frac(u, 0))
        } else if u < 1_000_000 {
            format!("{}\u{b5}s", frac(u, 3))
        } else {
            format!("{}ms", frac(u, 6))
        }
    } else {
        let secs = u / 1_000_000_000;
        let sub = u % 1_000_000_000;
        let s = secs % 60;
        let m = (secs / 60) % 60;
        let h = secs / 3600;
        let sf = frac(s * 1_000_000_000 + sub, 9);
        if h > 0 {
            format!("{}h{}m{}s", h, m, sf)
        } else if m > 0 {
            format!("{}m{}s", m, sf)
        } else {
            format!("{}s", sf)
        }
    };
    if neg {
        format!("-{}", body)
    } else {
        body
    }
}

fn dur_value(ns: i128) -> Option<Value> {
    if ns < i64::MIN as i128 || ns > i64::MAX as i128 {
        return None;
    }
    Some(Value::Duration(chrono::Duration::nanoseconds(ns as i64)))
}

fn ns_of(v: &MV) -> Option<i128> {
    match v {
        MV::Duration(s, n) => Some(*s as i128 * 1_000_000_000 + *n as i128),
        _ => None,
    }
}

pub fn dset(thorough: bool) -> Vec<i128> {
    let mut v: Vec<i128> = vec![0];
    let fr: [i128; 8] = [0, 1, 999, 1_000, 999_999, 1_000_000, 500_000_000, 999_999_999];
    let hs: &[i128] = if thorough { &[0, 1, 2, 23, 2562047] } else { &[0, 1, 2562047] };
    let ms: &[i128] = if thorough { &[0, 1, 30, 59] } else { &[0, 1, 59] };
    for &h in hs {
        for &m in ms {
            for &s in ms {
                for &f in fr.iter() {
                    let ns = ((h * 60 + m) * 60 + s) * 1_000_000_000 + f;
                    v.push(ns);
                    v.push(-ns);
                }
            }
        }
    }
    for k in 0..19u32 {
        let p = 10i128.pow(k);
        v.extend_from_slice(&[p, -p, p - 1, 5 * p, -(5 * p)]);
    }
    for k in 0..63u32 {
        let p = 1i128 << k;
        v.extend_from_slice(&[p, -p, p + 1, p - 1, -(p + 1)]);
    }
    let (lo, hi) = (i64::MIN as i128, i64::MAX as i128);
    for d in 0..4 {
        v.push(lo + d);
        v.push(hi - d);
    }
    v.extend_from_slice(&[59_999_999_999, -59_999_999_999, 60_000_000_000, 3_599_999_999_999, 3_600_000_000_000, 86_400_000_000_000, 1_500_000, 1_500, 16_854_775_807, 47 * 60_000_000_000 + 16_854_775_807]);
    let mut out: Vec<i128> = vec![];
    for x in v {
        if x >= lo && x <= hi && !out.contains(&x) {
            out.push(x);
        }
    }
    out
}

#[derive(Debug, Clone, PartialEq)]
enum Spec {
    MustAccept(i128),
    MustReject,
    Unspecified,
    /// outside the strict grammar of the statement but inside Go's (leading `+`, `.5s`, `1.s`, bare
    /// `0`, micro-sign units): may be rejected; if it is accepted it denotes this value
    IfAccepted(i128),
}

const UNITS: [(&str, i128); 8] = [("ns", 1), ("us", 1_000), ("\u{b5}s", 1_000), ("\u{3bc}s", 1_000), ("ms", 1_000_000), ("s", 1_000_000_000), ("m", 60_000_000_000), ("h", 3_600_000_000_000)];

/// strict grammar of the statement: -?(digits(.digits)?unit)+ ; Go's wider grammar -> Unspecified
fn classify(s: &str) -> Spec {
    fn parse(s: &str, strict: bool) -> Option<i128> {
        let cs: Vec<char> = s.chars().collect();
        let mut i = 0;
        let mut neg = false;
        if i < cs.len() && (cs[i] == '-' || (!strict && cs[i] == '+')) {
            neg = cs[i] == '-';
            i += 1;
        }
        if !strict && cs[i..].iter().collect::<String>() == "0" {
            return Some(0);
        }
        let mut total: i128 = 0;
        let mut terms = 0;
        while i < cs.len() {
            let st = i;
            while i < cs.len() && cs[i].is_ascii_digit() {
                i += 1;
            }
            let int_digits: String = cs[st..i].iter().collect();
            let mut frac_digits = String::new();
            let mut had_dot = false;
            if i < cs.len() && cs[i] == '.' {
                had_dot = true;
                i += 1;
                let fs = i;
                while i < cs.len() && cs[i].is_ascii_digit() {
                    i += 1;
                }
                frac_digits = cs[fs..i].iter().collect();
            }
            if strict {
                if int_digits.is_empty() || (had_dot && frac_digits.is_empty()) {
                    return None;
                }
            } else if int_digits.is_empty() && frac_digits.is_empty() {
                return None;
            }
            // unit: longest match
            let rest: String = cs[i..].iter().collect();
            let mut unit: Option<(&str, i128)> = None;
            for (u, f) in UNITS.iter() {
                if rest.starts_with(u) && (strict && u.is_ascii() || !strict) {
                    if unit.map(|(x, _)| u.len() > x.len()).unwrap_or(true) {
                        unit = Some((u, *f));
                    }
                }
            }
            let (u, f) = unit?;
            i += u.chars().count();
            if int_digits.len() > 25 || frac_digits.len() > 25 {
                return None;
            }
            let ip: i128 = if int_digits.is_empty() { 0 } else { int_digits.parse().ok()? };
            let mut term = ip.checked_mul(f)?;
            if !frac_digits.is_empty() {
                let fp: i128 = frac_digits.parse().ok()?;
                term += fp * f / 10i128.pow(frac_digits.len() as u32);
            }
            total = total.checked_add(term)?;
            terms += 1;
        }
        if terms == 0 {
            return None;
        }
        Some(if neg { -total } else { total })
    }
    if let Some(v) = parse(s, true) {
        return if v >= i64::MIN as i128 && v <= i64::MAX as i128 { Spec::MustAccept(v) } else { Spec::Unspecified };
    }
    if let Some(v) = parse(s, false) {
        return if v >= i64::MIN as i128 && v <= i64::MAX as i128 { Spec::IfAccepted(v) } else { Spec::Unspecified };
    }
    Spec::MustReject
}

pub fn run(run: &mut Run) {
    let thorough = !run.quick();
    let ds = dset(thorough);
    run.rep.extra.insert("duration_set".into(), json!(ds.len()));
    let p_string = Program::compile("string(d)").unwrap();
    let p_rt = Program::compile("duration(string(d))").unwrap();
    let p_rt_eq = Program::compile("duration(string(d)) == d").unwrap();
    let p_parse = Program::compile("duration(v)").unwrap();
    let base = Context::default();

    // ---- print and round trip
    run.sub("print-roundtrip");
    for &ns in ds.iter() {
        if !run.take() {
            continue;
        }
        let mut ctx = base.new_inner_scope();
        ctx.add_variable_from_value("d", dur_value(ns).unwrap());
        let want = go_duration(ns);
        let got = subj::exec(&p_string, &ctx);
        let rt = subj::exec(&p_rt, &ctx);
        let rte = subj::exec(&p_rt_eq, &ctx);
        run.trans(3);
        run.validated();
        run.nontrivial();
        let case = || json!({"ns": ns.to_string(), "go": want});
        let unit_class = if ns == 0 { "zero" } else if ns.unsigned_abs() < 1_000 { "ns" } else if ns.unsigned_abs() < 1_000_000 { "us" } else if ns.unsigned_abs() < 1_000_000_000 { "ms" } else if ns.unsigned_abs() < 60_000_000_000 { "s" } else if ns.unsigned_abs() < 3_600_000_000_000 { "m" } else { "h" };
        let sign = if ns < 0 { "neg" } else { "pos" };
        run.class(&format!("print:{}:{}:{}", unit_class, sign, got.tag()), case);
        if got != Out::Val(MV::Str(want.clone())) {
            run.fail(&format!("C15|print|{}|{}|got={}", unit_class, sign, got.tag()), format!("string(duration of {} ns) = {}, Go renders {}", ns, got.show(), want), case());
        }
        match &rt {
            Out::Val(v) if ns_of(v) == Some(ns) => {}
            other => run.fail(&format!("C15|roundtrip|{}|{}|got={}", unit_class, sign, other.tag()), format!("duration(string(d)) for d = {} ns ({}) gave {}", ns, want, other.show()), case()),
        }
        if rte != Out::Val(MV::Bool(true)) && matches!(rt, Out::Val(_)) {
            run.fail(&format!("C15|roundtrip-eq|{}|{}", unit_class, sign), format!("duration(string(d)) == d is {} for d = {} ns", rte.show(), ns), case());
        }
        // the Go rendering itself must be accepted by duration()
        let mut c2 = base.new_inner_scope();
        c2.add_variable_from_value("v", want.clone());
        let pg = subj::exec(&p_parse, &c2);
        run.trans(1);
        match &pg {
            Out::Val(v) if ns_of(v) == Some(ns) => {}
            other => run.fail(&format!("C15|parse-go-rendering|{}|{}|got={}", unit_class, sign, other.tag()), format!("duration({:?}) gave {} (expected {} ns)", want, other.show(), ns), case()),
        }
    }

    // ---- all pairs: + - < == on exact nanosecond counts
    run.sub("pairs");
    let ps: Vec<i128> = if thorough { ds.clone() } else { ds.iter().step_by(5).cloned().chain([i64::MAX as i128, i64::MIN as i128, 1, -1, 0]).collect() };
    let ops = [("+", Program::compile("a + b").unwrap()), ("-", Program::compile("a - b").unwrap()), ("<", Program::compile("a < b").unwrap()), ("==", Program::compile("a == b").unwrap()), (">=", Program::compile("a >= b").unwrap())];
    // chrono's own limits: +- i64::MAX milliseconds
    let chrono_max: i128 = i64::MAX as i128 * 1_000_000 + 999_999;
    for &a in ps.iter() {
        for &c in ps.iter() {
            if !run.take() {
                continue;
            }
            let mut ctx = base.new_inner_scope();
            ctx.add_variable_from_value("a", dur_value(a).unwrap());
            ctx.add_variable_from_value("b", dur_value(c).unwrap());
            for (op, p) in ops.iter() {
                let got = subj::exec(p, &ctx);
                run.trans(1);
                let case = || json!({"a_ns": a.to_string(), "b_ns": c.to_string(), "op": op});
                let ok = match *op {
                    "+" | "-" => {
                        let exact = if *op == "+" { a + c } else { a - c };
                        let in_i64 = exact >= i64::MIN as i128 && exact <= i64::MAX as i128;
                        match &got {
                            Out::Val(v) => ns_of(v) == Some(exact),
                            // outside 64-bit nanoseconds an error is the prescribed outcome
                            Out::Err(_) => !in_i64,
                            _ => false,
                        }
                    }
                    "<" => got == Out::Val(MV::Bool(a < c)),
                    "==" => got == Out::Val(MV::Bool(a == c)),
                    _ => got == Out::Val(MV::Bool(a >= c)),
                };
                if !ok {
                    let exact = if *op == "+" { a + c } else { a - c };
                    let range = if exact.abs() > chrono_max { "beyond-chrono" } else if exact < i64::MIN as i128 || exact > i64::MAX as i128 { "beyond-i64ns" } else { "in-range" };
                    run.fail(&format!("C15|pair|{}|{}|got={}", op, if *op == "+" || *op == "-" { range } else { "cmp" }, got.tag()), format!("{} ns {} {} ns gave {}", a, op, c, got.show()), case());
                }
            }
            run.validated();
            run.nontrivial();
            run.class("pair", || json!({"a_ns": a.to_string(), "b_ns": c.to_string()}));
        }
    }
    // sums beyond chrono's own range must be errors, not panics (host-supplied extreme durations)
    run.sub("extreme-sums");
    let ext = [chrono::Duration::MAX, chrono::Duration::MIN, chrono::Duration::nanoseconds(i64::MAX), chrono::Duration::nanoseconds(i64::MIN), chrono::Duration::nanoseconds(1), chrono::Duration::nanoseconds(-1), chrono::Duration::zero(), chrono::Duration::milliseconds(i64::MAX / 2 + 1)];
    for a in ext.iter() {
        for c in ext.iter() {
            for (op, p) in ops.iter() {
                if !run.take() {
                    continue;
                }
                let mut ctx = base.new_inner_scope();
                ctx.add_variable_from_value("a", Value::Duration(*a));
                ctx.add_variable_from_value("b", Value::Duration(*c));
                let got = subj::exec(p, &ctx);
                run.trans(1);
                run.validated();
                run.class(&format!("extreme:{}:{}", op, got.tag()), || json!({"a": format!("{:?}", a), "b": format!("{:?}", c), "op": op}));
                if let Out::Panic(pn) = &got {
                    run.fail(&format!("C15|extreme|{}|panic", op), format!("{:?} {} {:?} panicked: {}", a, op, c, pn), json!({"a": format!("{:?}", a), "b": format!("{:?}", c)}));
                }
            }
        }
    }

    // ---- fractional terms with 1..45 fraction digits in every unit, several digit patterns,
    //      alone and followed by a second term: the exact truncated value (beyond 18 digits the
    //      value computed from the first 18 digits is accepted as well: Go stops accumulating
    //      there and the statement does not decide the last nanosecond)
    run.sub("fractions");
    /// floor(0.<frac> * f)
    fn frac_floor(frac: &str, f: u128) -> i128 {
        let mut carry: u128 = 0;
        for c in frac.bytes().rev() {
            carry = ((c - b'0') as u128 * f + carry) / 10;
        }
        carry as i128
    }
    for (unit, f) in [("h", 3_600_000_000_000u128), ("m", 60_000_000_000), ("s", 1_000_000_000), ("ms", 1_000_000), ("us", 1_000), ("ns", 1)] {
        for digits in 1..=45usize {
            for pat in 0..5 {
                let frac: String = match pat {
                    0 => format!("5{}", "0".repeat(digits - 1)),
                    1 => "9".repeat(digits),
                    2 => format!("{}1", "0".repeat(digits - 1)),
                    3 => "123456789012345678901234567890123456789012345"[..digits].to_string(),
                    _ => format!("{}7", "3".repeat(digits - 1)),
                };
                for (whole, tail) in [("0", ""), ("1", ""), ("2", "3ns"), ("0", "1h")] {
                    if !run.take() {
                        continue;
                    }
                    let text = format!("{}.{}{}{}", whole, frac, unit, tail);
                    let rest: i128 = whole.parse::<i128>().unwrap() * f as i128 + match tail { "3ns" => 3, "1h" => 3_600_000_000_000, _ => 0 };
                    let exact = rest + frac_floor(&frac, f);
                    let trunc18 = rest + frac_floor(&frac[..digits.min(18)], f);
                    if digits <= 18 {
                        assert!(classify(&text) == Spec::MustAccept(exact), "reference models disagree on {}", text);
                    }
                    let mut ctx = base.new_inner_scope();
                    ctx.add_variable_from_value("v", text.clone());
                    let got = subj::exec(&p_parse, &ctx);
                    run.trans(1);
                    run.validated();
                    run.nontrivial();
                    run.class(&format!("fractions:{}:{}", unit, got.tag()), || json!({"text": text, "got": got.show()}));
                    match &got {
                        Out::Val(g) if ns_of(g) == Some(exact) || ns_of(g) == Some(trunc18) => {}
                        other => run.fail(
                            &format!("C15|fractions|{}|digits{}|got={}", unit, if digits <= 9 { "<=9" } else if digits <= 18 { "<=18" } else { ">18" }, other.tag()),
                            format!("duration({:?}) gave {} (exact value {} ns)", text, other.show(), exact),
                            json!({"text": text}),
                        ),
                    }
                }
            }
        }
    }

    // ---- every string of <= L symbols over the duration alphabet through duration(v)
    let alphabet = ["1", "5", "0", ".", "-", "+", "h", "m", "s", "ms", "us", "ns", " ", "e", "inf", "nan", "x"];
    let maxlen = run.pick(4usize, 5usize);
    run.sub("strings");
    let n = alphabet.len() as u64;
    for len in 0..=maxlen {
        let total = n.pow(len as u32);
        for code in 0..total {
            if !run.take() {
                continue;
            }
            let mut c = code;
            let mut s = String::new();
            for _ in 0..len {
                s.push_str(alphabet[(c % n) as usize]);
                c /= n;
            }
            let spec = classify(&s);
            let mut ctx = base.new_inner_scope();
            ctx.add_variable_from_value("v", s.clone());
            let got = subj::exec(&p_parse, &ctx);
            run.trans(1);
            let st = match &spec {
                Spec::MustAccept(_) => "must-accept",
                Spec::MustReject => "must-reject",
                Spec::Unspecified => "unspecified",
                Spec::IfAccepted(_) => "if-accepted",
            };
            run.class(&format!("parse:{}:{}", st, got.tag()), || json!({"text": s, "got": got.show()}));
            if let Out::Panic(p) = &got {
                run.fail(&format!("C15|parse|{}|panic", st), format!("duration({:?}) panicked: {}", s, p), json!({"text": s}));
                continue;
            }
            match spec {
                Spec::Unspecified => {}
                Spec::IfAccepted(v) => {
                    run.validated();
                    match &got {
                        Out::Err(_) => {}
                        Out::Val(g) if ns_of(g) == Some(v) => {}
                        other => run.fail(
                            &format!("C15|parse|if-accepted|{}|got={}", if s.starts_with('+') { "plus-sign" } else { "go-form" }, other.tag()),
                            format!("duration({:?}) is accepted and gave {}; the only value it can denote is {} ns", s, other.show(), v),
                            json!({"text": s}),
                        ),
                    }
                }
                Spec::MustAccept(v) => {
                    run.validated();
                    run.nontrivial();
                    match &got {
                        Out::Val(g) if ns_of(g) == Some(v) => {}
                        other => run.fail(
                            &format!("C15|parse|must-accept|{}|got={}", if s.contains('.') { "fraction" } else { "integer" }, other.tag()),
                            format!("duration({:?}) gave {} (exact value {} ns)", s, other.show(), v),
                            json!({"text": s}),
                        ),
                    }
                }
                Spec::MustReject => {
                    run.validated();
                    run.nontrivial();
                    if !matches!(got, Out::Err(_)) {
                        let why = if s.contains("inf") || s.contains("nan") {
                            "inf-nan"
                        } else if s.contains('e') {
                            "exponent"
                        } else if s.contains(' ') {
                            "space"
                        } else if s.contains('x') {
                            "junk"
                        } else {
                            "malformed"
                        };
                        run.fail(&format!("C15|parse|must-reject|{}|got={}", why, got.tag()), format!("duration({:?}) was accepted: {}", s, got.show()), json!({"text": s}));
                    }
                }
            }
        }
    }
}

//! C13 — numeric literals and conversions preserve the number or fail.
use crate::core::Run;
use crate::mv::{Out, MV};
use crate::nums::{i64_boundary, next_down, next_up, trunc_i128, u64_boundary};
use crate::subj;
use cel_interpreter::{Context, Program, Value};
use serde_json::json;

#[derive(Clone, Debug)]
enum Exp {
    Val(MV),
    CompileErr,
    ExecErr,
}

pub fn doubles(thorough: bool) -> Vec<f64> {
    let two31 = 2147483648.0f64;
    let two53 = 9007199254740992.0f64;
    let two63 = 9223372036854775808.0f64;
    let two64 = 18446744073709551616.0f64;
    let mut v = vec![
        0.0, -0.0, 5e-324, -5e-324, f64::MIN_POSITIVE, 1e-310, 0.1, 0.5, 0.9999999999999999, 1.0, 1.0000000000000002, 1.5, 2.0, 2.5, -0.5,
        -0.9999999999999999, -1.0, -1.5, -2.5, 255.0, 256.5, two31, two31 - 1.0, two31 + 0.5, -two31, -two31 - 1.0, 4294967295.0, 4294967296.0,
        two53 - 1.0, two53, two53 + 2.0, -two53, -two53 - 2.0, 4503599627370496.5, next_down(two63), two63, next_up(two63), -two63, next_down(-two63),
        next_up(-two63), next_down(two64), two64, next_up(two64), 1e19, 1.8446744073709552e19, 9.223372036854775e18, 1e300, -1e300, f64::MAX,
        f64::MIN, 1e15, 123456789.125, 3.141592653589793, 1e22, 1e23, 6.02214076e23, 1e-7, 1.2345e-5,
    ];
    if thorough {
        for k in [8u32, 16, 24, 31, 32, 33, 52, 53, 54, 62, 63, 64, 65, 100, 1023] {
            let p = 2f64.powi(k as i32);
            for x in [p, next_up(p), next_down(p), p + 0.5, p - 0.5] {
                v.push(x);
                v.push(-x);
            }
        }
        for k in -20..=22i32 {
            v.push(10f64.powi(k));
            v.push(-(10f64.powi(k)) * 1.5);
        }
    }
    let mut out: Vec<f64> = vec![];
    for x in v {
        if !out.iter().any(|y| y.to_bits() == x.to_bits()) {
            out.push(x);
        }
    }
    out
}

fn hex_i(x: i64) -> String {
    if x < 0 {
        format!("-0x{:x}", (x as i128).unsigned_abs())
    } else {
        format!("0x{:x}", x)
    }
}

fn double_spellings(f: f64) -> Vec<String> {
    // every spelling printed here round-trips to exactly `f` (shortest-representation guarantee)
    let mut v = vec![];
    let a = f.abs();
    let sign = if f.is_sign_negative() { "-" } else { "" };
    let plain = format!("{:?}", a);
    let plain_ok = !plain.contains("inf") && !plain.contains("NaN");
    if plain_ok {
        // Rust prints "1e300"/"5e-324" or "1.5": both are NUM_FLOAT spellings
        v.push(format!("{}{}", sign, plain));
        let e = format!("{:e}", a); // like 1.5e0 / 1e300
        v.push(format!("{}{}", sign, e));
        v.push(format!("{}{}", sign, e.replace('e', "E")));
        if let Some(rest) = plain.strip_prefix("0.") {
            v.push(format!("{}.{}", sign, rest)); // leading-dot form
        }
        if !e.contains("e-") {
            v.push(format!("{}{}", sign, e.replace('e', "e+")));
        }
    }
    v
}

pub fn run(run: &mut Run) {
    let thorough = !run.quick();
    let mut is = i64_boundary(true);
    let mut us = u64_boundary(true);
    let mut ds = doubles(thorough);
    if thorough {
        // every bit pattern with one or two bits set (and its complement), in all three types
        for a in 0..64u32 {
            for c in a..64u32 {
                let bits: u64 = (1u64 << a) | (1u64 << c);
                for b in [bits, !bits] {
                    if !us.contains(&b) {
                        us.push(b);
                    }
                    if !is.contains(&(b as i64)) {
                        is.push(b as i64);
                    }
                }
            }
        }
        // doubles on an exponent x mantissa grid
        for e in [0u64, 1, 2, 1021, 1022, 1023, 1024, 1054, 1055, 1074, 1075, 1076, 1085, 1086, 1087, 1088, 2045, 2046] {
            for m in [0u64, 1, 1 << 51, (1 << 52) - 1, 0x5555555555555] {
                for sgn in [0u64, 1] {
                    let f = f64::from_bits((sgn << 63) | (e << 52) | m);
                    if !ds.iter().any(|y| y.to_bits() == f.to_bits()) {
                        ds.push(f);
                    }
                }
            }
        }
    }
    // contiguous small ranges in all three types (mid-range defects: tables, truncating casts, digit-count fast paths)
    let dn: i64 = if thorough { 2100 } else { 300 };
    for x in -dn..=dn {
        if !is.contains(&x) {
            is.push(x);
        }
    }
    for x in 0..=(2 * dn as u64) {
        if !us.contains(&x) {
            us.push(x);
        }
    }
    // every multiple of 1/8 in the range (exactly representable fractions), and of 1/10 (not representable)
    for k in (-8 * dn / 2)..=(8 * dn / 2) {
        for f in [k as f64 / 8.0, k as f64 / 10.0] {
            if !ds.iter().any(|y| y.to_bits() == f.to_bits()) {
                ds.push(f);
            }
        }
    }
    let empty = Context::default();

    // ---------------- literals
    let mut cases: Vec<(String, Exp, &'static str)> = vec![];
    for &x in &is {
        cases.push((x.to_string(), Exp::Val(MV::Int(x)), "int-dec"));
        cases.push((hex_i(x), Exp::Val(MV::Int(x)), if x < 0 { "int-neghex" } else { "int-hex" }));
        if x < 0 {
            cases.push((format!("- {}", (x as i128).unsigned_abs()), Exp::Val(MV::Int(x)), "int-dec-spaced"));
        } else {
            cases.push((format!("0{}", x), Exp::Val(MV::Int(x)), "int-leading-zero"));
        }
    }
    for &x in &us {
        cases.push((format!("{}u", x), Exp::Val(MV::Uint(x)), "uint-dec"));
        cases.push((format!("{}U", x), Exp::Val(MV::Uint(x)), "uint-dec-U"));
        cases.push((format!("0x{:x}u", x), Exp::Val(MV::Uint(x)), "uint-hex"));
        cases.push((format!("0x{:X}U", x), Exp::Val(MV::Uint(x)), "uint-hex-upper"));
    }
    // first values beyond each range
    for s in [
        "9223372036854775808", "-9223372036854775809", "0x8000000000000000", "-0x8000000000000001", "18446744073709551616", "99999999999999999999",
        "18446744073709551616u", "0x10000000000000000u", "99999999999999999999u", "0xffffffffffffffffff",
    ] {
        cases.push((s.to_string(), Exp::CompileErr, "int-out-of-range"));
    }
    for s in ["1e309", "-1e309", "1.8e308", "1.7976931348623159e308", "123456789e400"] {
        cases.push((s.to_string(), Exp::CompileErr, "double-out-of-range"));
    }
    for &f in &ds {
        for sp in double_spellings(f) {
            cases.push((sp, Exp::Val(MV::f(f)), "double"));
        }
    }
    run.sub("literals");
    for (src, exp, cls) in &cases {
        if !run.take() {
            continue;
        }
        let got = subj::run_src(src, &empty);
        run.trans(2);
        run.validated();
        run.nontrivial();
        judge(run, "literal", cls, src, exp, &got);
    }

    // ---------------- conversions
    // programs compiled once: both call styles over variable `a`
    let fns = ["int", "uint", "double", "string", "bytes"];
    let progs: Vec<(String, Program)> = fns
        .iter()
        // `bytes` is a plain one-argument function, not a receiver built-in: global style only
        .flat_map(|f| if *f == "bytes" { vec![format!("{}(a)", f)] } else { vec![format!("{}(a)", f), format!("a.{}()", f)] })
        .map(|s| {
            let p = Program::compile(&s).unwrap();
            (s, p)
        })
        .collect();
    let mut args: Vec<MV> = vec![];
    for &x in &is {
        args.push(MV::Int(x));
    }
    for &x in &us {
        args.push(MV::Uint(x));
    }
    for &f in &ds {
        args.push(MV::f(f));
    }
    for f in [f64::NAN, f64::INFINITY, f64::NEG_INFINITY] {
        args.push(MV::f(f));
    }
    let texts = ["", "a", "é", "😀", "a\0b", "0", "-1", "9223372036854775807", "9223372036854775808", "-9223372036854775808", "18446744073709551615", "18446744073709551616", "1.5", "1e3", "abc", " 1", "1 ", "+1", "0x10", "NaN", "inf", "-inf", "1e309", "-0"];
    for s in texts {
        args.push(MV::s(s));
    }
    // decimal texts of a contiguous range and of the boundary sets (string -> number conversions)
    let tn: i64 = if thorough { 1200 } else { 130 };
    for x in -tn..=tn {
        args.push(MV::s(&x.to_string()));
    }
    for &x in i64_boundary(true).iter() {
        args.push(MV::s(&x.to_string()));
    }
    for &x in u64_boundary(true).iter() {
        args.push(MV::s(&x.to_string()));
    }
    run.sub("conversions");
    for a in &args {
        for (src, p) in &progs {
            if !run.take() {
                continue;
            }
            let f = src.trim_start_matches("a.").split('(').next().unwrap().to_string();
            let mut ctx = Context::default();
            ctx.add_variable_from_value("a", a.to_value());
            let got = subj::exec(p, &ctx);
            run.trans(1);
            let exp = expect_conv(&f, a);
            if let Some(exp) = exp {
                run.validated();
                run.nontrivial();
                judge(run, "conv", &format!("{}({})", f, a.kind()), &format!("{} [a={}]", src, a.show()), &exp, &got);
            } else {
                run.class(&format!("conv-unspecified:{}({}):{}", f, a.kind(), got.tag()), || json!({"src": src, "a": a.show(), "got": got.show()}));
                if let Out::Panic(p) = &got {
                    run.fail(&format!("C13|conv|{}({})|panic", f, a.kind()), format!("{} with a={} panicked: {}", src, a.show(), p), json!({"src": src, "a": a.show()}));
                }
            }
        }
    }

    // ---------------- string() then the inverse conversion
    let rt: Vec<(&str, Program, Program)> = vec![
        ("int", Program::compile("int(string(a))").unwrap(), Program::compile("a.string().int()").unwrap()),
        ("uint", Program::compile("uint(string(a))").unwrap(), Program::compile("a.string().uint()").unwrap()),
        ("double", Program::compile("double(string(a))").unwrap(), Program::compile("a.string().double()").unwrap()),
        ("string", Program::compile("string(bytes(a))").unwrap(), Program::compile("bytes(a).string()").unwrap()),
    ];
    let long: String = "aé😀\n".repeat(128);
    run.sub("roundtrip");
    let mut rts: Vec<MV> = vec![];
    for a in &args {
        if matches!(a, MV::Float(_)) && *a == MV::f(f64::NAN) {
            continue;
        }
        rts.push(a.clone());
    }
    rts.push(MV::Str(long));
    for a in &rts {
        let which = match a {
            MV::Int(_) => 0,
            MV::Uint(_) => 1,
            MV::Float(_) => 2,
            MV::Str(_) => 3,
            _ => continue,
        };
        for style in 0..2 {
            if !run.take() {
                continue;
            }
            let (name, p1, p2) = &rt[which];
            let p = if style == 0 { p1 } else { p2 };
            let mut ctx = Context::default();
            ctx.add_variable_from_value("a", a.to_value());
            let got = subj::exec(p, &ctx);
            run.trans(1);
            run.validated();
            run.nontrivial();
            judge(run, "roundtrip", name, &format!("{}-roundtrip style{} [a={}]", name, style, a.show()), &Exp::Val(a.clone()), &got);
        }
    }
    let _ = Value::Null;
}

fn expect_conv(f: &str, a: &MV) -> Option<Exp> {
    let (imin, imax) = (i64::MIN as i128, i64::MAX as i128);
    let umax = u64::MAX as i128;
    Some(match (f, a) {
        ("int", MV::Int(x)) => Exp::Val(MV::Int(*x)),
        ("int", MV::Uint(x)) => {
            if (*x as i128) <= imax {
                Exp::Val(MV::Int(*x as i64))
            } else {
                Exp::ExecErr
            }
        }
        ("int", MV::Float(b)) => match trunc_i128(f64::from_bits(*b)) {
            Some(t) if t >= imin && t <= imax => Exp::Val(MV::Int(t as i64)),
            _ => Exp::ExecErr,
        },
        ("uint", MV::Uint(x)) => Exp::Val(MV::Uint(*x)),
        ("uint", MV::Int(x)) => {
            if *x >= 0 {
                Exp::Val(MV::Uint(*x as u64))
            } else {
                Exp::ExecErr
            }
        }
        // a double in (-1, 0) truncates to 0 but is itself below the uint range: the statement
        // does not say which reading applies, so no verdict
        ("uint", MV::Float(b)) if f64::from_bits(*b) < 0.0 && f64::from_bits(*b) > -1.0 => return None,
        ("uint", MV::Float(b)) => match trunc_i128(f64::from_bits(*b)) {
            Some(t) if t >= 0 && t <= umax => Exp::Val(MV::Uint(t as u64)),
            _ => Exp::ExecErr,
        },
        ("double", MV::Float(b)) => Exp::Val(MV::Float(*b)),
        // nearest double, ties to even: the hardware conversion is the specification
        ("double", MV::Int(x)) => Exp::Val(MV::f(*x as f64)),
        ("double", MV::Uint(x)) => Exp::Val(MV::f(*x as f64)),
        ("bytes", MV::Str(s)) => Exp::Val(MV::Bytes(s.as_bytes().to_vec())),
        ("string", MV::Str(s)) => Exp::Val(MV::Str(s.clone())),
        // decimal text of integers in both directions
        ("int", MV::Str(s)) => match parse_dec(s) {
            Some(v) if v >= imin && v <= imax => Exp::Val(MV::Int(v as i64)),
            Some(_) => Exp::ExecErr,
            None => return if definitely_not_a_number(s) { Some(Exp::ExecErr) } else { None },
        },
        ("uint", MV::Str(s)) if s.starts_with('-') => return None, // "-0": unspecified
        ("uint", MV::Str(s)) => match parse_dec(s) {
            Some(v) if v >= 0 && v <= umax => Exp::Val(MV::Uint(v as u64)),
            Some(_) => Exp::ExecErr,
            None => return if definitely_not_a_number(s) { Some(Exp::ExecErr) } else { None },
        },
        _ => return None,
    })
}

/// plain optional-minus decimal digits only (other spellings are left unspecified)
fn parse_dec(s: &str) -> Option<i128> {
    let (neg, d) = match s.strip_prefix('-') {
        Some(r) => (true, r),
        None => (false, s),
    };
    if d.is_empty() || d.len() > 30 || !d.bytes().all(|c| c.is_ascii_digit()) {
        return None;
    }
    let v: i128 = d.parse().ok()?;
    Some(if neg { -v } else { v })
}

fn definitely_not_a_number(s: &str) -> bool {
    matches!(s, "" | "a" | "abc" | "é" | "😀")
}

fn judge(run: &mut Run, sub: &str, cls: &str, src: &str, exp: &Exp, got: &Out) {
    let exp_tag = match exp {
        Exp::Val(v) => format!("val:{}", v.kind()),
        Exp::CompileErr => "compile-error".into(),
        Exp::ExecErr => "error".into(),
    };
    run.class(&format!("{}:{}:{}", sub, cls, got.tag()), || json!({"src": src, "got": got.show()}));
    let ok = match (exp, got) {
        (Exp::Val(e), Out::Val(g)) => e == g,
        (Exp::CompileErr, Out::CompileErr(_)) => true,
        (Exp::ExecErr, Out::Err(_)) => true,
        _ => false,
    };
    if !ok {
        run.fail(
            &format!("C13|{}|{}|expect={}|got={}", sub, cls, exp_tag, got.tag()),
            format!("{} : expected {:?}, got {}", src, exp, got.show()),
            json!({"src": src}),
        );
    }
}

//! C08 — 64-bit integer arithmetic is exact or reports overflow.
use crate::core::Run;
use crate::mv::{Out, EC, MV};
use crate::nums::{i64_boundary, u64_boundary};
use crate::subj;
use cel_interpreter::{Context, Program, Value};
use serde_json::json;

const OPS: [&str; 5] = ["+", "-", "*", "/", "%"];

fn expect_int(op: &str, a: i128, b: i128, lo: i128, hi: i128, signed: bool) -> Result<i128, EC> {
    let r = match op {
        "+" => a + b,
        "-" => a - b,
        "*" => match a.checked_mul(b) {
            Some(r) => r,
            None => return Err(EC::Overflow),
        },
        "/" => {
            if b == 0 {
                return Err(EC::DivZero);
            }
            a / b
        }
        "%" => {
            if b == 0 {
                return Err(EC::DivZero);
            }
            if signed && a == lo && b == -1 {
                return Err(EC::Overflow);
            }
            a % b
        }
        _ => unreachable!(),
    };
    if r < lo || r > hi {
        Err(EC::Overflow)
    } else {
        Ok(r)
    }
}

fn ec_ok(expected: &EC, got: &EC) -> bool {
    expected == got || *got == EC::Other
}

fn nontrivial(op: &str, a: i128, b: i128, lo: i128, hi: i128) -> bool {
    if (op == "/" || op == "%") && b == 0 {
        return true;
    }
    let r = match op {
        "+" => a + b,
        "-" => a - b,
        "*" => a.checked_mul(b).unwrap_or(i128::MAX),
        "/" => a / b,
        _ => a % b,
    };
    r <= lo + 2 || r >= hi - 2 || a == lo || (op == "%" && b < 0) || (op == "/" && (a < 0) != (b < 0))
}

fn check(
    run: &mut Run,
    form: &str,
    ty: &str,
    op: &str,
    a: i128,
    b: i128,
    got: &Out,
    lo: i128,
    hi: i128,
    src: &str,
) {
    let signed = ty == "int";
    let exp = expect_int(op, a, b, lo, hi, signed);
    run.validated();
    if nontrivial(op, a, b, lo, hi) {
        run.nontrivial();
    }
    let exp_tag = match &exp {
        Ok(_) => "value".to_string(),
        Err(e) => e.tag0().to_string(),
    };
    run.class(&format!("{}:{}:{}", ty, op, got.tag()), || json!({"src": src, "a": a.to_string(), "b": b.to_string(), "got": got.show()}));
    let ok = match (&exp, got) {
        (Ok(r), Out::Val(MV::Int(g))) if signed => *r == *g as i128,
        (Ok(r), Out::Val(MV::Uint(g))) if !signed => *r == *g as i128,
        (Err(e), Out::Err(g)) => ec_ok(e, g),
        _ => false,
    };
    if !ok {
        run.fail(
            &format!("C08|{}|{}|{}|expect={}|got={}", form, ty, op, exp_tag, got.tag()),
            format!("{} : expected {:?}, got {}", src, exp, got.show()),
            json!({"src": src, "a": a.to_string(), "b": b.to_string(), "form": form}),
        );
    }
}

fn lit_i(x: i64) -> String {
    x.to_string()
}
fn lit_u(x: u64) -> String {
    format!("{}u", x)
}

pub fn run(run: &mut Run) {
    let thorough = !run.quick();
    let is = i64_boundary(thorough);
    let us = u64_boundary(thorough);
    run.rep.extra.insert("int_set".into(), json!(is.len()));
    run.rep.extra.insert("uint_set".into(), json!(us.len()));
    let (ilo, ihi) = (i64::MIN as i128, i64::MAX as i128);
    let (ulo, uhi) = (0i128, u64::MAX as i128);
    let empty = Context::default();

    // ---- variables: programs compiled once
    let progs: Vec<Program> = OPS.iter().map(|op| Program::compile(&format!("a {} b", op)).expect("compile a op b")).collect();
    let ident = Program::compile("(a / b) * b + a % b == a").expect("compile identity");
    for (ty, n) in [("int", is.len()), ("uint", us.len())] {
        run.sub(&format!("var-{}", ty));
        for (oi, op) in OPS.iter().enumerate() {
            for i in 0..n {
                for j in 0..n {
                    if !run.take() {
                        continue;
                    }
                    let (a, b, va, vb) = if ty == "int" {
                        (is[i] as i128, is[j] as i128, Value::Int(is[i]), Value::Int(is[j]))
                    } else {
                        (us[i] as i128, us[j] as i128, Value::UInt(us[i]), Value::UInt(us[j]))
                    };
                    let mut ctx = Context::default();
                    ctx.add_variable_from_value("a", va);
                    ctx.add_variable_from_value("b", vb);
                    let got = subj::exec(&progs[oi], &ctx);
                    run.trans(1);
                    let src = format!("a {} b  [a={}, b={}, {}]", op, a, b, ty);
                    let (lo, hi) = if ty == "int" { (ilo, ihi) } else { (ulo, uhi) };
                    check(run, "var", ty, op, a, b, &got, lo, hi, &src);
                    // division identity, evaluated by the subject, whenever both are defined
                    if *op == "/" {
                        let signed = ty == "int";
                        let d = expect_int("/", a, b, lo, hi, signed);
                        let m = expect_int("%", a, b, lo, hi, signed);
                        if d.is_ok() && m.is_ok() {
                            let g = subj::exec(&ident, &ctx);
                            run.trans(1);
                            if g != Out::Val(MV::Bool(true)) {
                                run.fail(
                                    &format!("C08|identity|{}|got={}", ty, g.tag()),
                                    format!("(a/b)*b + a%b == a with a={}, b={} gave {}", a, b, g.show()),
                                    json!({"a": a.to_string(), "b": b.to_string()}),
                                );
                            }
                        }
                    }
                }
            }
        }
    }

    // ---- literals: compile + execute
    for ty in ["int", "uint"] {
        run.sub(&format!("lit-{}", ty));
        let n = if ty == "int" { is.len() } else { us.len() };
        for op in OPS.iter() {
            for i in 0..n {
                for j in 0..n {
                    if !run.take() {
                        continue;
                    }
                    let (a, b, sa, sb) = if ty == "int" {
                        (is[i] as i128, is[j] as i128, lit_i(is[i]), lit_i(is[j]))
                    } else {
                        (us[i] as i128, us[j] as i128, lit_u(us[i]), lit_u(us[j]))
                    };
                    let src = format!("{} {} {}", sa, op, sb);
                    let got = subj::run_src(&src, &empty);
                    run.trans(2);
                    let (lo, hi) = if ty == "int" { (ilo, ihi) } else { (ulo, uhi) };
                    check(run, "lit", ty, op, a, b, &got, lo, hi, &src);
                }
            }
        }
    }

    // ---- unary minus
    run.sub("neg");
    let neg_var = Program::compile("-a").unwrap();
    let neg_paren = Program::compile("-(a)").unwrap();
    for &x in is.iter() {
        for form in 0..3 {
            if !run.take() {
                continue;
            }
            let mut ctx = Context::default();
            ctx.add_variable_from_value("a", Value::Int(x));
            let (src, got) = match form {
                0 => ("-a".to_string(), subj::exec(&neg_var, &ctx)),
                1 => ("-(a)".to_string(), subj::exec(&neg_paren, &ctx)),
                _ => {
                    let s = format!("-({})", x);
                    let g = subj::run_src(&s, &empty);
                    (s, g)
                }
            };
            run.trans(1);
            run.validated();
            let exp = -(x as i128);
            let want_overflow = exp > ihi;
            if want_overflow || x == i64::MAX || x == 0 {
                run.nontrivial();
            }
            run.class(&format!("neg:{}", got.tag()), || json!({"src": src, "a": x, "got": got.show()}));
            let ok = match &got {
                Out::Val(MV::Int(g)) => !want_overflow && *g as i128 == exp,
                Out::Err(e) => want_overflow && ec_ok(&EC::Overflow, e),
                _ => false,
            };
            if !ok {
                run.fail(
                    &format!("C08|neg|form{}|expect={}|got={}", form, if want_overflow { "overflow" } else { "value" }, got.tag()),
                    format!("{} with a={} : expected {}, got {}", src, x, if want_overflow { "overflow error".to_string() } else { exp.to_string() }, got.show()),
                    json!({"src": src, "a": x}),
                );
            }
        }
    }
    // nested unary minus: every negation is applied (the inner one may overflow)
    run.sub("neg-nested");
    let nested: Vec<(String, Program, usize)> = ["-(-a)", "-(-(-a))", "-(-(a))", "0 - (-a)", "-(0 - a)", "-(-a) + 0", "[-(-a)][0]"]
        .iter()
        .map(|s| (s.to_string(), Program::compile(s).unwrap(), s.matches('-').count()))
        .collect();
    for &x in is.iter() {
        for (src, p, negs) in nested.iter() {
            if !run.take() {
                continue;
            }
            let mut ctx = Context::default();
            ctx.add_variable_from_value("a", Value::Int(x));
            let got = subj::exec(p, &ctx);
            run.trans(1);
            run.validated();
            run.nontrivial();
            // any negation (or 0 - a) of i64::MIN overflows; MIN is the only value whose negation does
            let overflow = x == i64::MIN;
            let want = if negs % 2 == 0 { x as i128 } else { -(x as i128) };
            run.class(&format!("neg-nested:{}", got.tag()), || json!({"src": src, "a": x, "got": got.show()}));
            let ok = match &got {
                Out::Val(MV::Int(g)) => !overflow && *g as i128 == want,
                Out::Err(e) => overflow && ec_ok(&EC::Overflow, e),
                _ => false,
            };
            if !ok {
                run.fail(
                    &format!("C08|neg-nested|expect={}|got={}", if overflow { "overflow" } else { "value" }, got.tag()),
                    format!("{} with a={} : expected {}, got {}", src, x, if overflow { "overflow error".to_string() } else { want.to_string() }, got.show()),
                    json!({"src": src, "a": x}),
                );
            }
        }
    }
    // unary minus on uint is an error, never a wrapped number
    run.sub("neg-uint");
    for &x in us.iter() {
        if !run.take() {
            continue;
        }
        let mut ctx = Context::default();
        ctx.add_variable_from_value("a", Value::UInt(x));
        let got = subj::exec(&neg_var, &ctx);
        run.trans(1);
        run.validated();
        run.class(&format!("neguint:{}", got.tag()), || json!({"src": "-a", "a": x, "got": got.show()}));
        if !matches!(got, Out::Err(_)) {
            run.fail(&format!("C08|neg-uint|got={}", got.tag()), format!("-a with a={}u gave {}", x, got.show()), json!({"a": x}));
        }
    }

    // ---- dense small values: every pair of a contiguous range (mid-range defects: truncating casts, tables, fast paths)
    let d: i64 = if thorough { 400 } else { 33 };
    for ty in ["int", "uint"] {
        run.sub(&format!("dense-{}", ty));
        let (lo, hi) = if ty == "int" { (ilo, ihi) } else { (ulo, uhi) };
        for (oi, op) in OPS.iter().enumerate() {
            for i in 0..=(2 * d) {
                for j in 0..=(2 * d) {
                    if !run.take() {
                        continue;
                    }
                    let (a, b, va, vb) = if ty == "int" {
                        ((i - d) as i128, (j - d) as i128, Value::Int(i - d), Value::Int(j - d))
                    } else {
                        (i as i128, j as i128, Value::UInt(i as u64), Value::UInt(j as u64))
                    };
                    let mut ctx = Context::default();
                    ctx.add_variable_from_value("a", va);
                    ctx.add_variable_from_value("b", vb);
                    let got = subj::exec(&progs[oi], &ctx);
                    run.trans(1);
                    let src = format!("a {} b  [a={}, b={}, {}]", op, a, b, ty);
                    check(run, "dense", ty, op, a, b, &got, lo, hi, &src);
                }
            }
        }
    }
    // ---- dense range against the boundary set, both orders
    let d2: i64 = if thorough { 130 } else { 16 };
    for ty in ["int", "uint"] {
        run.sub(&format!("dense-x-boundary-{}", ty));
        let (lo, hi) = if ty == "int" { (ilo, ihi) } else { (ulo, uhi) };
        let n = if ty == "int" { is.len() } else { us.len() };
        for (oi, op) in OPS.iter().enumerate() {
            for i in 0..=(2 * d2) {
                for j in 0..n {
                    for order in 0..2 {
                        if !run.take() {
                            continue;
                        }
                        let (x, y, vx, vy) = if ty == "int" {
                            ((i - d2) as i128, is[j] as i128, Value::Int(i - d2), Value::Int(is[j]))
                        } else {
                            (i as i128, us[j] as i128, Value::UInt(i as u64), Value::UInt(us[j]))
                        };
                        let (a, b, va, vb) = if order == 0 { (x, y, vx, vy) } else { (y, x, vy, vx) };
                        let mut ctx = Context::default();
                        ctx.add_variable_from_value("a", va);
                        ctx.add_variable_from_value("b", vb);
                        let got = subj::exec(&progs[oi], &ctx);
                        run.trans(1);
                        let src = format!("a {} b  [a={}, b={}, {}]", op, a, b, ty);
                        check(run, "dense-x-boundary", ty, op, a, b, &got, lo, hi, &src);
                    }
                }
            }
        }
    }
    // ---- three operands: every intermediate result is range-checked (no widening, no reassociation, no folding)
    let ti: Vec<i64> = if thorough {
        vec![0, 1, -1, 2, -2, 3, 7, -7, 10, 3037000500, -3037000500, 1 << 31, 1 << 32, -(1 << 32), 1 << 62, -(1 << 62), i64::MAX, i64::MAX - 1, i64::MIN, i64::MIN + 1, i64::MAX / 2 + 1, i64::MIN / 2 - 1, 4611686018427387905, 6442450941]
    } else {
        vec![0, 1, -1, 2, -2, 3, 3037000500, 1 << 32, 1 << 62, i64::MAX, i64::MAX - 1, i64::MIN, i64::MIN + 1, i64::MAX / 2 + 1]
    };
    let tu: Vec<u64> = if thorough {
        vec![0, 1, 2, 3, 7, 10, 4294967296, 4294967295, 6074000999, 1 << 62, 1 << 63, (1 << 63) - 1, (1 << 63) + 1, u64::MAX, u64::MAX - 1, u64::MAX / 2, u64::MAX / 2 + 1, u64::MAX / 3, 6148914691236517205]
    } else {
        vec![0, 1, 2, 3, 4294967296, 1 << 63, (1 << 63) - 1, u64::MAX, u64::MAX - 1, u64::MAX / 2 + 1, u64::MAX / 3]
    };
    fn prec(op: &str) -> u8 {
        if op == "+" || op == "-" { 1 } else { 2 }
    }
    // (source, op1, op2, left-grouped?)
    let mut shapes: Vec<(String, Program, &str, &str, bool)> = vec![];
    for op1 in OPS.iter() {
        for op2 in OPS.iter() {
            for sh in 0..3 {
                let (src, left) = match sh {
                    0 => (format!("(a {} b) {} c", op1, op2), true),
                    1 => (format!("a {} (b {} c)", op1, op2), false),
                    _ => (format!("a {} b {} c", op1, op2), prec(op2) <= prec(op1)),
                };
                let p = Program::compile(&src).expect("compile triple");
                shapes.push((src, p, op1, op2, left));
            }
        }
    }
    for ty in ["int", "uint"] {
        run.sub(&format!("triple-{}", ty));
        let signed = ty == "int";
        let (lo, hi) = if signed { (ilo, ihi) } else { (ulo, uhi) };
        let n = if signed { ti.len() } else { tu.len() };
        for (src, p, op1, op2, left) in shapes.iter() {
            for i in 0..n {
                for j in 0..n {
                    for k in 0..n {
                        if !run.take() {
                            continue;
                        }
                        let (a, b, c, va, vb, vc) = if signed {
                            (ti[i] as i128, ti[j] as i128, ti[k] as i128, Value::Int(ti[i]), Value::Int(ti[j]), Value::Int(ti[k]))
                        } else {
                            (tu[i] as i128, tu[j] as i128, tu[k] as i128, Value::UInt(tu[i]), Value::UInt(tu[j]), Value::UInt(tu[k]))
                        };
                        let mut ctx = Context::default();
                        ctx.add_variable_from_value("a", va);
                        ctx.add_variable_from_value("b", vb);
                        ctx.add_variable_from_value("c", vc);
                        let got = subj::exec(p, &ctx);
                        run.trans(1);
                        run.validated();
                        let exp = if *left {
                            expect_int(op1, a, b, lo, hi, signed).and_then(|r| expect_int(op2, r, c, lo, hi, signed))
                        } else {
                            expect_int(op2, b, c, lo, hi, signed).and_then(|r| expect_int(op1, a, r, lo, hi, signed))
                        };
                        // non-trivial: an intermediate overflows although the widened total would fit, or vice versa
                        if exp.is_err() {
                            run.nontrivial();
                        }
                        let exp_tag = match &exp {
                            Ok(_) => "value".to_string(),
                            Err(e) => e.tag0().to_string(),
                        };
                        run.class(&format!("triple:{}:{}{}:{}", ty, op1, op2, got.tag()), || json!({"src": src, "a": a.to_string(), "b": b.to_string(), "c": c.to_string(), "got": got.show()}));
                        let ok = match (&exp, &got) {
                            (Ok(r), Out::Val(MV::Int(g))) if signed => *r == *g as i128,
                            (Ok(r), Out::Val(MV::Uint(g))) if !signed => *r == *g as i128,
                            (Err(e), Out::Err(g)) => ec_ok(e, g),
                            _ => false,
                        };
                        if !ok {
                            run.fail(
                                &format!("C08|triple|{}|{}{}|{}|expect={}|got={}", ty, op1, op2, if *left { "left" } else { "right" }, exp_tag, got.tag()),
                                format!("{} with a={}, b={}, c={} : expected {:?}, got {}", src, a, b, c, exp, got.show()),
                                json!({"src": src, "a": a.to_string(), "b": b.to_string(), "c": c.to_string()}),
                            );
                        }
                    }
                }
            }
        }
    }

    // ---- mixing int / uint / double is an error, not a coercion
    run.sub("mixed");
    let mi: Vec<Value> = [0i64, 1, -1, 2, i64::MAX, i64::MIN].iter().map(|x| Value::Int(*x)).collect();
    let mu: Vec<Value> = [0u64, 1, 2, u64::MAX, 1 << 63].iter().map(|x| Value::UInt(*x)).collect();
    let mf: Vec<Value> = [0.0f64, 1.0, -1.0, 2.5, 1e300, f64::NAN, f64::INFINITY].iter().map(|x| Value::Float(*x)).collect();
    let groups = [("int", &mi), ("uint", &mu), ("double", &mf)];
    for (ta, ga) in groups.iter() {
        for (tb, gb) in groups.iter() {
            if ta == tb {
                continue;
            }
            for (oi, op) in OPS.iter().enumerate() {
                for a in ga.iter() {
                    for b in gb.iter() {
                        if !run.take() {
                            continue;
                        }
                        let mut ctx = Context::default();
                        ctx.add_variable_from_value("a", a.clone());
                        ctx.add_variable_from_value("b", b.clone());
                        let got = subj::exec(&progs[oi], &ctx);
                        run.trans(1);
                        run.validated();
                        run.nontrivial();
                        run.class(&format!("mixed:{}{}{}:{}", ta, op, tb, got.tag()), || json!({"a": format!("{:?}", a), "b": format!("{:?}", b), "op": op, "got": got.show()}));
                        if !matches!(got, Out::Err(_)) {
                            run.fail(
                                &format!("C08|mixed|{}{}{}|got={}", ta, op, tb, got.tag()),
                                format!("{:?} {} {:?} gave {}", a, op, b, got.show()),
                                json!({"a": format!("{:?}", a), "b": format!("{:?}", b), "op": op}),
                            );
                        }
                    }
                }
            }
        }
    }
}

//! C01 — compiling any source text ends in a program or positioned errors.
use crate::core::{guard, Run};
use crate::gast::{all_forms, TreeSpace};
use crate::refparse::{verdict, Verdict};
use cel_interpreter::Program;
use serde_json::json;

/// One spelling per token kind of CEL.g4 plus the "broken" lexemes of the statement.
pub const LEXEMES: [&str; 56] = [
    "==", "!=", "in", "<", "<=", ">=", ">", "&&", "||", "[", "]", "{", "}", "(", ")", ".", ",", "-", "!", "?", ":", "+", "*", "/", "%", "true",
    "false", "null", "1", "1u", "1.5", "0x1F", "'s'", "b's'", "r's'", "\"\"\"t\"\"\"", "a", "inx", "`e`", "// c\n", "\n",
    // broken lexemes
    "'abc", "@", "|", "\u{e4}", "&", "=", "\\", "\"", "1e",
    // unknown characters that Unicode (but not CEL) counts as white space or ignorable
    "\u{a0}", "\u{b}", "\u{2028}", "\u{3000}", "\u{feff}", "\u{85}",
];
/// sub-alphabet for the longer sequences: one representative per syntactic role
pub const CORE: [&str; 16] = ["a", "1", "(", ")", "[", "]", "{", "}", ".", ",", "-", "!", "?", ":", "+", "&&"];
pub const CORE12: [&str; 12] = ["a", "1", "(", ")", "[", "]", ".", ",", "-", "?", ":", "+"];
pub const CHARS: [char; 14] = ['a', '1', '.', '\'', '"', '\\', '(', ')', '+', '-', ' ', '\n', '\u{e4}', '\t'];
/// layout-sensitive characters: tab, carriage return, characters of 2, 3 and 4 UTF-8 bytes, an
/// unknown ASCII character (error positions and rendered snippets mix columns, bytes and tabs)
pub const LAYOUT_CHARS: [char; 9] = ['\t', '\u{e4}', '\u{20ac}', '\u{1f600}', '#', 'a', '\n', '"', '\r'];

pub struct Judged {
    pub class: &'static str,
}

/// Runs compile on `src`, checks the statement's invariants, records class and failures.
pub fn judge(run: &mut Run, family: &str, src: &str) {
    let r = guard(|| Program::compile(src));
    run.trans(1);
    run.validated();
    let v = verdict(src);
    let case = || json!({"src": src});
    let class: &str;
    match &r {
        Err(p) => {
            class = "panic";
            run.fail(
                &format!("C01|{}|panic|{}", family, crate::core::panic_site(p)),
                format!("compile({:?}) panicked: {}", src, p),
                case(),
            );
        }
        Ok(Ok(_)) => {
            class = "accepted";
            if v == Verdict::Reject {
                run.fail(
                    &format!("C01|{}|accepted-non-expression", family),
                    format!("compile({:?}) returned a program, but the text is not one complete CEL expression", src),
                    case(),
                );
            }
        }
        Ok(Err(errs)) => {
            let first = errs.errors.first().map(|e| e.msg.clone()).unwrap_or_default();
            class = if first.contains("token recognition") {
                "lexer-error"
            } else if first.starts_with("Syntax error") {
                "parser-error"
            } else {
                "semantic-error"
            };
            if errs.errors.is_empty() {
                run.fail(&format!("C01|{}|empty-error-list", family), format!("compile({:?}) returned Err with no errors", src), case());
            }
            let lines: Vec<&str> = src.split('\n').collect();
            let nlines = lines.len().max(1) as isize;
            for e in &errs.errors {
                let text = guard(|| e.to_string());
                match text {
                    Err(p) => run.fail(&format!("C01|{}|display-panic", family), format!("Display of an error of compile({:?}) panicked: {}", src, p), case()),
                    Ok(t) if t.trim().is_empty() => run.fail(&format!("C01|{}|empty-error-text", family), format!("an error of compile({:?}) renders to empty text", src), case()),
                    _ => {}
                }
                let (l, c) = e.pos;
                let line_ok = l >= 1 && l <= nlines;
                let col_ok = if line_ok {
                    let ln = lines[(l - 1) as usize];
                    let len = ln.len().max(ln.chars().count()) as isize;
                    c >= 1 && c <= len + 1
                } else {
                    false
                };
                if !(line_ok && col_ok) {
                    run.fail(
                        &format!("C01|{}|position-beyond-source|{}", family, class),
                        format!("compile({:?}): error {:?} is positioned at {}:{} which is outside the source", src, e.msg, l, c),
                        case(),
                    );
                }
            }
            let whole = guard(|| errs.to_string());
            if !matches!(whole, Ok(ref t) if !t.is_empty()) {
                run.fail(&format!("C01|{}|errors-display", family), format!("Display of ParseErrors of compile({:?}) failed or is empty", src), case());
            }
        }
    }
    if v == Verdict::Reject {
        run.nontrivial();
    }
    let vtag = match v {
        Verdict::Accept => "ref-accept",
        Verdict::Reject => "ref-reject",
        Verdict::Unsure => "ref-unsure",
    };
    run.class(&format!("{}:{}:{}", family, class, vtag), case);
}

fn sequences(run: &mut Run, name: &str, alphabet: &[&str], max_len: usize, renderings: usize) {
    run.sub(name);
    let n = alphabet.len();
    for len in 0..=max_len {
        let total = (n as u64).pow(len as u32);
        for code in 0..total {
            for rend in 0..renderings {
                if !run.take() {
                    continue;
                }
                let mut c = code;
                let mut parts: Vec<&str> = Vec::with_capacity(len);
                for _ in 0..len {
                    parts.push(alphabet[(c % n as u64) as usize]);
                    c /= n as u64;
                }
                let body = parts.join(" ");
                let src = match rend {
                    0 => body,
                    1 => format!(" {}", body),
                    _ => format!("{}\n", body),
                };
                judge(run, name, &src);
            }
        }
    }
}

/// split a minimally rendered generator expression into lexemes
fn tokens_of(src: &str) -> Vec<String> {
    let cs: Vec<char> = src.chars().collect();
    let mut out = vec![];
    let mut i = 0;
    while i < cs.len() {
        let c = cs[i];
        if c == ' ' {
            i += 1;
            continue;
        }
        if c.is_ascii_alphanumeric() || c == '_' {
            let mut j = i;
            while j < cs.len() && (cs[j].is_ascii_alphanumeric() || cs[j] == '_') {
                j += 1;
            }
            out.push(cs[i..j].iter().collect());
            i = j;
            continue;
        }
        if i + 1 < cs.len() {
            let two: String = cs[i..i + 2].iter().collect();
            if ["||", "&&", "<=", ">=", "==", "!="].contains(&two.as_str()) {
                out.push(two);
                i += 2;
                continue;
            }
        }
        out.push(c.to_string());
        i += 1;
    }
    out
}

pub fn run(run: &mut Run) {
    run.set_case_limit_ms(20_000);
    // (a) token sequences
    if run.quick() {
        sequences(run, "seq3-full", &LEXEMES, 3, 3);
        sequences(run, "seq5-core", &CORE, 5, 1);
    } else {
        sequences(run, "seq3-full", &LEXEMES, 3, 3);
        sequences(run, "seq4-full", &LEXEMES, 4, 1);
        sequences(run, "seq6-core12", &CORE12, 6, 1);
        sequences(run, "seq5-core", &CORE, 5, 3);
    }

    // (b) character strings without separators
    let max_chars = run.pick(5usize, 6usize);
    run.sub("chars");
    let n = CHARS.len() as u64;
    for len in 0..=max_chars {
        let total = n.pow(len as u32);
        for code in 0..total {
            if !run.take() {
                continue;
            }
            let mut c = code;
            let mut s = String::new();
            for _ in 0..len {
                s.push(CHARS[(c % n) as usize]);
                c /= n;
            }
            judge(run, "chars", &s);
        }
    }

    // (b2) every string of length <= 5 (6) over the layout-sensitive characters
    run.sub("layout-chars");
    {
        let n = LAYOUT_CHARS.len() as u64;
        for len in 1..=max_chars {
            for code in 0..n.pow(len as u32) {
                if !run.take() {
                    continue;
                }
                let mut c = code;
                let mut s = String::new();
                for _ in 0..len {
                    s.push(LAYOUT_CHARS[(c % n) as usize]);
                    c /= n;
                }
                judge(run, "layout-chars", &s);
            }
        }
    }

    // (c) single-token mutations of valid expressions
    let max_ops = run.pick(1usize, 2usize);
    let sp = TreeSpace::new(all_forms(), 2, max_ops);
    run.sub("mutations");
    for ops in 0..=max_ops {
        for i in 0..sp.count(ops) {
            let mut g = sp.unrank(ops, i);
            let mut c = 0;
            g.number_leaves("a", &mut c);
            let toks = tokens_of(&g.min());
            let nt = toks.len();
            // the unmutated expression itself
            if run.take() {
                judge(run, "mutations", &toks.join(" "));
            }
            // truncations
            for k in 0..nt {
                if run.take() {
                    judge(run, "mutations", &toks[..k].join(" "));
                }
            }
            // deletions
            for k in 0..nt {
                if run.take() {
                    let mut t = toks.clone();
                    t.remove(k);
                    judge(run, "mutations", &t.join(" "));
                }
            }
            // replacements and insertions by every lexeme
            for lx in LEXEMES.iter() {
                for k in 0..nt {
                    if run.take() {
                        let mut t = toks.clone();
                        t[k] = lx.to_string();
                        judge(run, "mutations", &t.join(" "));
                    }
                }
                for k in 0..=nt {
                    if run.take() {
                        let mut t = toks.clone();
                        t.insert(k, lx.to_string());
                        judge(run, "mutations", &t.join(" "));
                    }
                }
            }
        }
    }

    // (e) literal extremes: every escape form at every boundary in several quoting styles, and
    //     numeric literals of every length around the range limits (visitor-level decoding must
    //     fail with a positioned error, never unwind)
    run.sub("literals");
    {
        let styles: [(&str, &str); 8] = [("\"", "\""), ("'", "'"), ("\"\"\"", "\"\"\""), ("'''", "'''"), ("b\"", "\""), ("b'''", "'''"), ("r\"", "\""), ("br'", "'")];
        for (si, (open, close)) in styles.iter().enumerate() {
            let mut bodies: Vec<String> = vec![];
            for v in 0..=0xffffu32 {
                // every \u value in the first style; boundary neighbourhoods in the others
                let near = |x: u32| (v as i64 - x as i64).abs() <= 2;
                if si == 0 || v % 0x400 == 0 || near(0x7f) || near(0xff) || near(0x7ff) || near(0xd7ff) || near(0xdfff) || near(0xffff) {
                    bodies.push(format!("\\u{:04x}", v));
                }
            }
            for plane in 0..=17u32 {
                for d in -2i64..=2 {
                    let p = plane as i64 * 0x10000 + d;
                    if p >= 0 {
                        bodies.push(format!("\\U{:08x}", p));
                    }
                }
            }
            for v in [0xd800u32, 0xdbff, 0xdc00, 0xdfff, 0x110000, 0x7fffffff, 0x80000000, 0xffffffff] {
                bodies.push(format!("\\U{:08x}", v));
                bodies.push(format!("a\\U{:08X}b", v));
            }
            for v in 0..=255u32 {
                bodies.push(format!("\\x{:02x}", v));
                bodies.push(format!("\\X{:02X}", v));
            }
            for v in 0..512u32 {
                bodies.push(format!("\\{:03o}", v));
            }
            for c in 0x20u8..0x7f {
                bodies.push(format!("\\{}", c as char));
            }
            for t in ["\\x4", "\\u12", "\\U0001", "\\0", "\\", "\\xzz", "\u{e4}\\n", "\u{1f600}\\u00e4\u{e4}", "\\ud800\\udc00"] {
                bodies.push(t.to_string());
            }
            for b in bodies {
                if run.take() {
                    judge(run, "literals", &format!("{}{}{}", open, b, close));
                }
            }
        }
        // numeric literals of growing length
        for n in 1..=40usize {
            for (pre, post) in [("", ""), ("-", ""), ("", "u"), ("0x", ""), ("-0x", ""), ("0x", "u"), ("", ".0"), ("0.", ""), ("", "e0"), ("1e", ""), ("1e-", ""), ("-1e", ""), (".", "")] {
                for digit in ["9", "1", "0", "f", "7"] {
                    if digit == "f" && !pre.contains("0x") {
                        continue;
                    }
                    if run.take() {
                        judge(run, "literals", &format!("{}{}{}", pre, digit.repeat(n), post));
                    }
                }
            }
        }
        // multi-line triple-quoted literals whose rejected escape stands on a later line (the
        // reported position must stay inside the line it names)
        for (open, close) in [("\"\"\"", "\"\"\""), ("\'\'\'", "\'\'\'"), ("b\"\"\"", "\"\"\""), ("b\'\'\'", "\'\'\'")] {
            for bad in ["\\ud800", "\\U00110000", "\\udfff", "\\u0041", "\\U00000041", "\\400", "\\xzz", "\\q"] {
                for before in ["\n", "a\n", "aaaaaaaaaaaaaaaaaaaaaaaaaaaaaaaaaaaaaaaa\n", "\n\n", "a\nb\n", "\r\n", "\u{e4}\n\u{1f600}", "\t\n\t"] {
                    for after in ["", "\n", "\nzz"] {
                        for (pre, post) in [("", ""), ("1 + ", ""), ("[\n", "\n]"), ("f(", ")")] {
                            if run.take() {
                                judge(run, "literals", &format!("{}{}{}{}{}{}{}", pre, open, before, bad, after, close, post));
                            }
                        }
                    }
                }
            }
        }
        // integer literals at every power-of-two boundary, decimal and hexadecimal, signed and
        // unsigned spellings, alone and embedded
        for k in [7u32, 8, 15, 16, 31, 32, 53, 62, 63, 64, 65, 126, 127] {
            for d in [-1i32, 0, 1] {
                let v: u128 = if d < 0 { (1u128 << k) - 1 } else { (1u128 << k) + d as u128 };
                for body in [format!("{}", v), format!("0x{:x}", v), format!("0X{:X}", v), format!("0x00{:x}", v), format!("0{}", v)] {
                    for sign in ["", "-", "- ", "--"] {
                        for suf in ["", "u", "U"] {
                            for (pre, post) in [("", ""), ("[", "]"), ("1 + ", ""), ("(", ").x"), ("f(", ", 1)")] {
                                if run.take() {
                                    judge(run, "literals", &format!("{}{}{}{}{}", pre, sign, body, suf, post));
                                }
                            }
                        }
                    }
                }
            }
        }
        for e in 0..=400u32 {
            for f in [format!("1e{}", e), format!("1e-{}", e), format!("9.9e{}", e), format!("-1.0E+{}", e)] {
                if run.take() {
                    judge(run, "literals", &f);
                }
            }
        }
    }

    // (f) errors reported by the visitor (macro arguments, optional syntax, literal ranges) in
    //     every layout: each fragment is a token list; the gaps are filled with every uniform
    //     separator, and with a line break in exactly one gap; the fragment is embedded in several
    //     contexts, after non-ASCII text and on later lines (positions must stay inside the source)
    run.sub("semantic-errors");
    {
        let frags: Vec<Vec<&str>> = vec![
            vec!["has", "(", "1", ")"],
            vec!["has", "(", "a", ")"],
            vec!["has", "(", "a", "[", "0", "]", ")"],
            vec!["has", "(", "f", "(", ")", ")"],
            vec!["a", ".", "map", "(", "1", ",", "x", ")"],
            vec!["a", ".", "map", "(", "b", ".", "c", ",", "x", ")"],
            vec!["a", ".", "all", "(", "f", "(", ")", ",", "true", ")"],
            vec!["a", ".", "exists", "(", "'s'", ",", "true", ")"],
            vec!["a", ".", "exists_one", "(", "[", "x", "]", ",", "true", ")"],
            vec!["a", ".", "filter", "(", "-", "x", ",", "true", ")"],
            vec!["a", ".", "map", "(", "1", ",", "true", ",", "x", ")"],
            vec!["a", ".", "?", "b"],
            vec!["a", "[", "?", "0", "]"],
            vec!["[", "?", "1", "]"],
            vec!["{", "?", "1", ":", "2", "}"],
            vec!["T", "{", "?", "f", ":", "1", "}"],
            vec!["99999999999999999999"],
            vec!["-", "9223372036854775809"],
            vec!["18446744073709551616u"],
            vec!["1e999"],
            vec!["\"\\ud800\""],
            vec!["'\\U00110000'"],
            vec!["a", ".", "map", "(", "1", ",", "has", "(", "2", ")", ")"],
            vec!["has", "(", "99999999999999999999", ")"],
            vec!["[", "1e999", ",", "has", "(", "1", ")", ",", "a", ".", "?", "b", "]"],
        ];
        let seps = ["", " ", "\n", "\n\n", " \n ", "\r\n", "\t", " // c\n"];
        let contexts: [(&str, &str); 10] = [("", ""), ("(", ")"), ("[", "]"), ("1 + ", ""), ("g(", ")"), ("", " ? 1 : 2"), ("'\u{e4}\u{1f600}' + ", ""), ("\n", ""), ("true &&\n", "\n|| false"), ("{'k':\n", "}")];
        for f in frags.iter() {
            let gaps = f.len() - 1;
            let mut variants: Vec<String> = vec![];
            for sep in seps.iter() {
                variants.push(f.join(sep));
            }
            for g in 0..gaps {
                for brk in ["\n", "\r\n", "\n  "] {
                    let mut t = String::new();
                    for (k, tok) in f.iter().enumerate() {
                        t.push_str(tok);
                        if k == g {
                            t.push_str(brk);
                        }
                    }
                    variants.push(t);
                }
            }
            for v in variants.iter() {
                for (pre, post) in contexts.iter() {
                    if run.take() {
                        judge(run, "semantic-errors", &format!("{}{}{}", pre, v, post));
                    }
                }
            }
        }
    }

    // (g) visitor-level errors nested in each other: every failing (and some valid) fragment in
    //     every argument slot of every macro / optional / wrapper template, two levels deep (an
    //     already-rejected argument is itself checked by the enclosing macro)
    run.sub("semantic-nesting");
    {
        let inner: Vec<&str> = vec![
            "has(1)", "has(a)", "has(a[0])", "has(f())", "a.map(1, x)", "a.map(b.c, x)", "a.all(f(), true)", "a.exists('s', true)", "a.exists_one([x], true)", "a.filter(-x, true)",
            "a.map(1, true, x)", "a.?b", "a[?0]", "[?1]", "{?1: 2}", "T{?f: 1}", "99999999999999999999", "-9223372036854775809", "18446744073709551616u", "1e999", "\"\\ud800\"",
            "'\\U00110000'", "b'\\u0041'", "b\"\\U00000041\"", "'\\400'", "1.all(x, true)", "has(a.b)", "x", "a.b", "1", "a.map(x, x)", "a.all(x, true, 3)", "has()", "has(a.b, c)", "a.map()", "a.map(x)",
            "a.b.map(x, y, z, w)", "dyn(1)", "x.y(has(2))",
        ];
        let holes: Vec<&str> = vec![
            "has(#)", "has(#.f)", "has((#).f)", "#.map(x, x)", "a.map(#, x)", "a.map(x, #)", "a.all(#, true)", "a.all(x, #)", "a.exists(#, true)", "a.exists(x, #)", "a.exists_one(#, true)",
            "a.exists_one(x, #)", "a.existsOne(#, true)", "a.filter(#, true)", "a.filter(x, #)", "a.map(#, true, x)", "a.map(x, #, x)", "a.map(x, true, #)", "a.?#", "a[?#]", "[?#]", "{?#: 1}", "{?1: #}",
            "T{?f: #}", "T{f: #}", "-#", "!#", "(#).f", "(#)[0]", "f(#)", "(#).g()", "[#, #]", "# + #", "{#: #}", "# ? # : #",
        ];
        let fill = |h: &str, x: &str| h.replace('#', x);
        for h in holes.iter() {
            for x in inner.iter() {
                if run.take() {
                    judge(run, "semantic-nesting", &fill(h, x));
                }
            }
        }
        for h2 in holes.iter() {
            for h1 in holes.iter() {
                for x in inner.iter() {
                    if run.take() {
                        judge(run, "semantic-nesting", &fill(h2, &fill(h1, x)));
                    }
                }
            }
        }
    }

    // (d) nesting depth 1..32 of every nesting construct, balanced and with one closer removed
    run.sub("depth");
    let constructs: [(&str, &str, &str, &str); 14] = [
        ("paren", "(", "1", ")"),
        ("list", "[", "1", "]"),
        ("map-value", "{1:", "1", "}"),
        ("map-key-list", "{[", "1", "]:1}"),
        ("call", "f(", "1", ")"),
        ("method", "a.f(", "1", ")"),
        ("index", "a[", "0", "]"),
        ("cond-else", "a?b:", "c", ""),
        ("cond-then", "a?(", "b", "):c"),
        ("not", "!", "a", ""),
        ("neg-paren", "-(", "a", ")"),
        ("plus-right", "1+(", "1", ")"),
        ("macro", "[1].map(x,", "x", ")"),
        ("mixed", "[f({'k':(", "1", ")})]"),
    ];
    for (name, open, core, close) in constructs.iter() {
        for d in 1..=32usize {
            if run.take() {
                let src = format!("{}{}{}", open.repeat(d), core, close.repeat(d));
                judge(run, &format!("depth-{}", name), &src);
            }
            if !close.is_empty() {
                // one closing unit missing / one extra / one opening unit missing
                if run.take() {
                    let src = format!("{}{}{}", open.repeat(d), core, close.repeat(d - 1));
                    judge(run, &format!("depth-{}", name), &src);
                }
                if run.take() {
                    let src = format!("{}{}{}", open.repeat(d), core, close.repeat(d + 1));
                    judge(run, &format!("depth-{}", name), &src);
                }
                if run.take() {
                    let src = format!("{}{}{}", open.repeat(d - 1), core, close.repeat(d));
                    judge(run, &format!("depth-{}", name), &src);
                }
            }
        }
    }
    // postfix chains and binary chains of every length to 32, and the 4 KiB extremes
    run.sub("long");
    for d in 1..=32usize {
        for (a, unit) in [("a", ".f"), ("a", "[0]"), ("a", ".m()"), ("1", "+1"), ("a", "&&a"), ("a", "||a"), ("a", "==a"), ("a", "*a"), ("a", " in a"), ("a", "-a")] {
            if run.take() {
                judge(run, "long", &format!("{}{}", a, unit.repeat(d)));
            }
            if run.take() {
                judge(run, "long", &format!("{}{}{}", a, unit.repeat(d), &unit[..unit.len().min(1)]));
            }
        }
    }
    for src in [
        format!("1{}", "+1".repeat(2047)),
        format!("1{}+", "+1".repeat(2047)),
        vec!["a"; 2048].join(" "),
        vec!["a"; 1024].join("||"),
        vec!["a"; 1024].join(".") ,
        "'".to_string() + &"x".repeat(4094) + "'",
        "'".to_string() + &"x".repeat(4095),
        "\u{e4}".repeat(2048),
        "(".repeat(32) + &"1+".repeat(1000) + "1" + &")".repeat(32),
        "[".to_string() + &"1,".repeat(2000) + "]",
        "{".to_string() + &"1:1,".repeat(1000) + "}",
        "f(".to_string() + &"1,".repeat(2000) + "1)",
        "// ".to_string() + &"c".repeat(4000),
        "1 // ".to_string() + &"c".repeat(4000),
        "\n".repeat(4095) + "1",
        "\n".repeat(4095) + "+",
    ] {
        if run.take() {
            judge(run, "long", &src);
        }
    }
}

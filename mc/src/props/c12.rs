//! C12 — string and bytes literals denote exactly the characters written.
//! The generator picks a *value* and a *spelling*, so the expected result is known by construction.
use crate::core::Run;
use crate::mv::{Out, MV};
use crate::subj;
use cel_interpreter::Context;
use serde_json::json;

#[derive(Clone, Debug, PartialEq)]
enum Exp {
    Str(String),
    Bytes(Vec<u8>),
    CompileErr,
    /// the statement / CEL specification do not decide this spelling
    Unspecified,
}

/// quoting styles: (name, opening, closing, raw, bytes)
struct Style {
    name: &'static str,
    open: &'static str,
    close: &'static str,
    raw: bool,
    bytes: bool,
}

fn styles() -> Vec<Style> {
    let mut v = vec![];
    for (bytes, bp) in [(false, ""), (true, "b")] {
        for (raw, rp) in [(false, ""), (true, "r")] {
            for (qn, q) in [("sq", "'"), ("dq", "\""), ("tsq", "'''"), ("tdq", "\"\"\"")] {
                let name: &'static str = Box::leak(format!("{}{}{}", if bytes { "bytes-" } else { "str-" }, if raw { "raw-" } else { "" }, qn).into_boxed_str());
                let open: &'static str = Box::leak(format!("{}{}{}", bp, rp, q).into_boxed_str());
                v.push(Style { name, open, close: q, raw, bytes });
            }
        }
    }
    v
}

fn judge(run: &mut Run, family: &str, class: &str, src: &str, exp: &Exp, ctx: &Context) {
    let got = subj::run_src(src, ctx);
    run.trans(2);
    let case = || json!({"src": src, "expected": format!("{:?}", exp), "got": got.show()});
    let gtag = match &got {
        Out::Val(MV::Str(_)) => "string",
        Out::Val(MV::Bytes(_)) => "bytes",
        Out::Val(_) => "other-value",
        Out::CompileErr(_) => "compile-error",
        Out::Err(_) => "exec-error",
        Out::Panic(_) => "panic",
    };
    run.class(&format!("{}:{}:{}", family, class, gtag), case);
    if let Out::Panic(p) = &got {
        run.fail(&format!("C12|{}|{}|panic", family, class), format!("`{}` panicked: {}", src, p), case());
        return;
    }
    let ok = match exp {
        Exp::Unspecified => return,
        Exp::Str(s) => got == Out::Val(MV::Str(s.clone())),
        Exp::Bytes(b) => got == Out::Val(MV::Bytes(b.clone())),
        Exp::CompileErr => matches!(got, Out::CompileErr(_)),
    };
    run.validated();
    run.nontrivial();
    if !ok {
        let how = match (&got, exp) {
            (Out::CompileErr(_), _) => "rejected",
            (_, Exp::CompileErr) => "accepted-invalid",
            _ => "wrong-value",
        };
        run.fail(&format!("C12|{}|{}|{}", family, class, how), format!("`{}` : expected {:?}, got {}", src, exp, got.show()), case());
    }
}

/// the ways of spelling one code point inside a non-raw string literal of the given quote
fn spellings_of_char(c: char, quote: &str, triple: bool) -> Vec<(String, &'static str)> {
    let mut v: Vec<(String, &'static str)> = vec![];
    let qc = quote.chars().next().unwrap();
    let cp = c as u32;
    // verbatim, where the lexer allows it
    let verbatim_ok = c != '\\' && !(c == qc) && (triple || (c != '\n' && c != '\r'));
    if verbatim_ok {
        v.push((c.to_string(), "verbatim"));
    }
    if c == qc && triple {
        // a single quote character inside a triple-quoted literal (not adjacent to the closer: the caller places it)
        v.push((c.to_string(), "verbatim-quote"));
    }
    let single = match c {
        '\u{07}' => Some("\\a"),
        '\u{08}' => Some("\\b"),
        '\u{0c}' => Some("\\f"),
        '\n' => Some("\\n"),
        '\r' => Some("\\r"),
        '\t' => Some("\\t"),
        '\u{0b}' => Some("\\v"),
        '\\' => Some("\\\\"),
        '?' => Some("\\?"),
        '"' => Some("\\\""),
        '\'' => Some("\\'"),
        '`' => Some("\\`"),
        _ => None,
    };
    if let Some(s) = single {
        let tag = match c {
            '"' => "esc-dquote",
            '\'' => "esc-squote",
            _ => "esc-single",
        };
        v.push((s.to_string(), tag));
    }
    if cp <= 0xff {
        v.push((format!("\\x{:02x}", cp), "esc-x"));
        v.push((format!("\\X{:02X}", cp), "esc-X"));
        v.push((format!("\\{:03o}", cp), "esc-oct"));
    }
    if cp <= 0xffff {
        v.push((format!("\\u{:04x}", cp), "esc-u"));
    }
    v.push((format!("\\U{:08x}", cp), "esc-U"));
    v
}

pub fn run(run: &mut Run) {
    let ctx = Context::default();
    let st = styles();
    let thorough = !run.quick();

    // ---------------- (i) single escapes, exhaustively, in every quoting style
    run.sub("single-escapes");
    for s in st.iter() {
        let lit = |body: &str| format!("{}{}{}", s.open, body, s.close);
        let val = |run: &mut Run, class: &str, body: &str, cp: Option<u32>, is_byte_escape: bool| {
            let src = lit(body);
            let exp = if s.raw {
                // raw literals perform no escape processing
                if s.bytes {
                    Exp::Bytes(body.as_bytes().to_vec())
                } else {
                    Exp::Str(body.to_string())
                }
            } else {
                match cp {
                    None => Exp::CompileErr,
                    Some(cp) => {
                        if s.bytes {
                            if is_byte_escape {
                                Exp::Bytes(vec![cp as u8])
                            } else if cp < 0x80 && !body.starts_with("\\u") && !body.starts_with("\\U") {
                                Exp::Bytes(vec![cp as u8])
                            } else {
                                // \u / \U inside a bytes literal: not decided here
                                Exp::Unspecified
                            }
                        } else {
                            match char::from_u32(cp) {
                                Some(c) => Exp::Str(c.to_string()),
                                None => Exp::CompileErr,
                            }
                        }
                    }
                }
            };
            judge(run, s.name, class, &src, &exp, &ctx);
        };
        // \xHH and \XHH
        for v in 0..=255u32 {
            if run.take() {
                val(run, "esc-x", &format!("\\x{:02x}", v), Some(v), true);
            }
            if run.take() {
                val(run, "esc-X", &format!("\\X{:02X}", v), Some(v), true);
            }
        }
        // \OOO 000..777 (>= 400 names no code point / byte)
        for v in 0..512u32 {
            if run.take() {
                val(run, if v < 256 { "esc-oct" } else { "esc-oct-out-of-range" }, &format!("\\{:03o}", v), if v < 256 { Some(v) } else { None }, true);
            }
        }
        // \uHHHH: every value
        for v in 0..=0xffffu32 {
            if run.take() {
                val(run, if (0xd800..=0xdfff).contains(&v) { "esc-u-surrogate" } else { "esc-u" }, &format!("\\u{:04x}", v), Some(v), false);
            }
        }
        // \UHHHHHHHH: plane boundaries +-2 (quick) / every code point and the first 4096 above (thorough)
        if thorough {
            for v in 0..=(0x10ffffu32 + 4096) {
                if run.take() {
                    val(run, if v > 0x10ffff { "esc-U-beyond" } else { "esc-U" }, &format!("\\U{:08x}", v), Some(v), false);
                }
            }
        } else {
            let mut pts: Vec<u32> = vec![];
            for plane in 0..=17u32 {
                for d in -2i64..=2 {
                    let p = (plane as i64) * 0x10000 + d;
                    if p >= 0 {
                        pts.push(p as u32);
                    }
                }
            }
            pts.extend_from_slice(&[0x41, 0x7f, 0x80, 0xff, 0x100, 0x7ff, 0x800, 0xd7ff, 0xd800, 0xdbff, 0xdc00, 0xdfff, 0xe000, 0xfffd, 0x1f600, 0x10ffff, 0x110000, 0x7fffffff, 0xffffffff]);
            for v in pts {
                if run.take() {
                    val(run, if v > 0x10ffff { "esc-U-beyond" } else { "esc-U" }, &format!("\\U{:08x}", v), Some(v), false);
                }
            }
        }
        // single-character escapes
        for (e, cp) in [("\\a", 7u32), ("\\b", 8), ("\\f", 12), ("\\n", 10), ("\\r", 13), ("\\t", 9), ("\\v", 11), ("\\\\", 92), ("\\?", 63), ("\\\"", 34), ("\\'", 39), ("\\`", 96)] {
            // in a raw literal, an escaped quote equal to the delimiter cannot be written at all
            // (the lexer ends the literal there): skip those combinations
            if s.raw && ((e == "\\\"" && s.close.starts_with('"')) || (e == "\\'" && s.close.starts_with('\'')) || e == "\\\\") {
                continue;
            }
            if run.take() {
                let class = match e {
                    "\\\"" => "esc-dquote",
                    "\\'" => "esc-squote",
                    _ => "esc-single",
                };
                val(run, class, e, Some(cp), false);
            }
            // embedded in text
            if run.take() {
                let body = format!("x{}y", e);
                let src = lit(&body);
                let exp = if s.raw {
                    if s.bytes {
                        Exp::Bytes(body.as_bytes().to_vec())
                    } else {
                        Exp::Str(body.clone())
                    }
                } else if s.bytes {
                    Exp::Bytes(vec![b'x', cp as u8, b'y'])
                } else {
                    Exp::Str(format!("x{}y", char::from_u32(cp).unwrap()))
                };
                let class = match e {
                    "\\\"" => "esc-dquote",
                    "\\'" => "esc-squote",
                    _ => "esc-single",
                };
                judge(run, s.name, class, &src, &exp, &ctx);
            }
        }
        // every other ASCII letter / digit after a backslash names nothing
        if !s.raw {
            for c in (b'A'..=b'Z').chain(b'a'..=b'z').chain(b'4'..=b'9') {
                let ch = c as char;
                if "abfnrtvxXuU".contains(ch) {
                    continue;
                }
                if run.take() {
                    judge(run, s.name, "esc-invalid-letter", &lit(&format!("\\{}", ch)), &Exp::CompileErr, &ctx);
                }
            }
            // truncated numeric escapes
            for body in ["\\x4", "\\x", "\\u123", "\\U0001f60", "\\01", "\\0", "\\xg1", "\\u12g4"] {
                if run.take() {
                    judge(run, s.name, "esc-truncated", &lit(body), &Exp::CompileErr, &ctx);
                }
            }
        }
    }

    // ---------------- (ii) every string of length <= 3 over a character alphabet x every
    //                  per-character spelling x every quoting style that can spell it
    run.sub("strings");
    let alphabet: Vec<char> = vec!['a', '\'', '"', '\\', '\n', '\u{e4}', '\u{1f600}', '?', '`', ' ', 'x', '\0', '\r'];
    let maxlen = run.pick(2usize, 3usize);
    let n = alphabet.len();
    for len in 0..=maxlen {
        let total = n.pow(len as u32);
        for code in 0..total {
            let mut c = code;
            let mut chars = vec![];
            for _ in 0..len {
                chars.push(alphabet[c % n]);
                c /= n;
            }
            let value: String = chars.iter().collect();
            for s in st.iter() {
                if s.raw {
                    // a raw literal can spell the value only verbatim
                    let triple = s.close.len() == 3;
                    let qc = s.close.chars().next().unwrap();
                    let ok = if triple {
                        !value.contains(s.close) && !value.ends_with(qc)
                    } else {
                        !value.contains(qc) && !value.contains('\n') && !value.contains('\r')
                    };
                    if !ok {
                        continue;
                    }
                    if !run.take() {
                        continue;
                    }
                    let src = format!("{}{}{}", s.open, value, s.close);
                    let exp = if s.bytes { Exp::Bytes(value.as_bytes().to_vec()) } else { Exp::Str(value.clone()) };
                    let has_bs = value.contains('\\');
                    let class = if value.contains('\0') && s.close.len() == 3 {
                        "raw-triple-with-nul"
                    } else if has_bs {
                        "raw-with-backslash"
                    } else if value.contains('\'') || value.contains('"') {
                        "raw-with-other-quote"
                    } else {
                        "raw-plain"
                    };
                    judge(run, s.name, class, &src, &exp, &ctx);
                    continue;
                }
                // non-raw: product of per-character spellings
                let triple = s.close.len() == 3;
                let per: Vec<Vec<(String, &'static str)>> = chars.iter().map(|ch| spellings_of_char(*ch, s.close, triple)).collect();
                let combos: usize = per.iter().map(|p| p.len()).product();
                for k in 0..combos {
                    let mut kk = k;
                    let mut body = String::new();
                    let mut tags: Vec<&'static str> = vec![];
                    for p in per.iter() {
                        let (sp, tag) = &p[kk % p.len()];
                        kk /= p.len();
                        body.push_str(sp);
                        tags.push(tag);
                    }
                    // a verbatim quote may not touch the closing delimiter or form the delimiter itself
                    if triple {
                        let qc = s.close.chars().next().unwrap();
                        let _ = qc;
                        if tags.last() == Some(&"verbatim-quote") {
                            continue;
                        }
                        if body.contains(s.close) {
                            continue;
                        }
                    }
                    if !run.take() {
                        continue;
                    }
                    let src = format!("{}{}{}", s.open, body, s.close);
                    // in bytes literals \u/\U spellings are not decided; numeric escapes above 0x7f denote bytes, not UTF-8
                    let exp = if s.bytes {
                        if tags.iter().any(|t| *t == "esc-u" || *t == "esc-U") {
                            Exp::Unspecified
                        } else {
                            let mut out: Vec<u8> = vec![];
                            for (ch, t) in chars.iter().zip(tags.iter()) {
                                if matches!(*t, "esc-x" | "esc-X" | "esc-oct") {
                                    out.push(*ch as u32 as u8);
                                } else {
                                    let mut buf = [0u8; 4];
                                    out.extend_from_slice(ch.encode_utf8(&mut buf).as_bytes());
                                }
                            }
                            Exp::Bytes(out)
                        }
                    } else {
                        Exp::Str(value.clone())
                    };
                    // failure class: the most specific spelling feature present
                    let mut feat = "verbatim";
                    for pri in ["esc-squote", "esc-dquote", "verbatim-quote", "esc-X", "esc-single", "esc-x", "esc-oct", "esc-u", "esc-U"] {
                        if tags.contains(&pri) {
                            feat = pri;
                            break;
                        }
                    }
                    judge(run, s.name, feat, &src, &exp, &ctx);
                }
            }
        }
    }

    // ---------------- (ii-a) raw styles only: every string of length 3..5 over {backslash, both
    //                  quotes, a letter} (a raw literal is its content verbatim, also where a
    //                  backslash stands before the literal's own quote character)
    run.sub("raw-strings");
    {
        let ab = ['\\', '\'', '"', 'a'];
        for len in 3..=5usize {
            for code in 0..ab.len().pow(len as u32) {
                let mut c = code;
                let mut value = String::new();
                for _ in 0..len {
                    value.push(ab[c % ab.len()]);
                    c /= ab.len();
                }
                for s in st.iter().filter(|s| s.raw) {
                    let triple = s.close.len() == 3;
                    let qc = s.close.chars().next().unwrap();
                    let ok = if triple { !value.contains(s.close) && !value.ends_with(qc) } else { !value.contains(qc) };
                    if !ok || !run.take() {
                        continue;
                    }
                    let src = format!("{}{}{}", s.open, value, s.close);
                    let exp = if s.bytes { Exp::Bytes(value.as_bytes().to_vec()) } else { Exp::Str(value.clone()) };
                    let class = if value.contains(&format!("\\{}", qc)) { "raw-backslash-before-own-quote" } else if value.contains('\\') { "raw-with-backslash" } else { "raw-with-other-quote" };
                    judge(run, s.name, class, &src, &exp, &ctx);
                }
            }
        }
    }

    // ---------------- (ii-b) every pair and triple of escape atoms, valid and invalid: a literal
    //                  with any escape that names no code point is a compile error, whatever stands beside it
    run.sub("escape-sequences");
    {
        let atoms: [(&str, Option<&str>); 13] = [
            ("\\ud83d", None),
            ("\\ude00", None),
            ("\\ud800", None),
            ("\\udfff", None),
            ("\\U0000d83d", None),
            ("\\U0000de00", None),
            ("\\U00110000", None),
            ("\\u0041", Some("A")),
            ("a", Some("a")),
            ("\\x41", Some("A")),
            ("\\101", Some("A")),
            ("\\n", Some("\n")),
            ("\\U0001f600", Some("\u{1f600}")),
        ];
        let n = atoms.len();
        for s in st.iter().filter(|s| !s.raw && !s.bytes) {
            for len in 2..=3usize {
                let total = n.pow(len as u32);
                for code in 0..total {
                    if !run.take() {
                        continue;
                    }
                    let mut c = code;
                    let mut body = String::new();
                    let mut val: Option<String> = Some(String::new());
                    for _ in 0..len {
                        let (sp, v) = atoms[c % n];
                        c /= n;
                        body.push_str(sp);
                        val = match (val, v) {
                            (Some(mut acc), Some(x)) => {
                                acc.push_str(x);
                                Some(acc)
                            }
                            _ => None,
                        };
                    }
                    let src = format!("{}{}{}", s.open, body, s.close);
                    let exp = match val {
                        Some(v) => Exp::Str(v),
                        None => Exp::CompileErr,
                    };
                    let class = if matches!(exp, Exp::CompileErr) { "esc-seq-with-invalid" } else { "esc-seq-valid" };
                    judge(run, s.name, class, &src, &exp, &ctx);
                }
            }
        }
    }

    // ---------------- (iii) byte sequences over {0x00, 0x41, 0x7f, 0x80, 0xff, quote bytes} in bytes literals
    run.sub("byte-sequences");
    let balpha: [u8; 7] = [0x00, 0x41, 0x7f, 0x80, 0xff, b'\'', b'"'];
    let blen = run.pick(2usize, 3usize);
    for len in 0..=blen {
        let total = balpha.len().pow(len as u32);
        for code in 0..total {
            let mut c = code;
            let mut bs = vec![];
            for _ in 0..len {
                bs.push(balpha[c % balpha.len()]);
                c /= balpha.len();
            }
            for s in st.iter().filter(|s| s.bytes && !s.raw) {
                // each byte spelled as \xHH, \OOO, or (if printable ASCII and not the delimiter) verbatim: 3 uniform spellings
                for mode in 0..3 {
                    if !run.take() {
                        continue;
                    }
                    let qc = s.close.as_bytes()[0];
                    let mut body = String::new();
                    for b in &bs {
                        match mode {
                            0 => body.push_str(&format!("\\x{:02x}", b)),
                            1 => body.push_str(&format!("\\{:03o}", b)),
                            _ => {
                                if *b >= 0x20 && *b < 0x7f && *b != qc && *b != b'\\' {
                                    body.push(*b as char);
                                } else {
                                    body.push_str(&format!("\\X{:02X}", b));
                                }
                            }
                        }
                    }
                    let src = format!("{}{}{}", s.open, body, s.close);
                    judge(run, s.name, ["bytes-x", "bytes-oct", "bytes-mixed"][mode], &src, &Exp::Bytes(bs.clone()), &ctx);
                }
            }
        }
    }
}

//! C04 — parsing preserves CEL precedence, associativity and grouping.
use crate::core::{guard, Run};
use crate::gast::{all_forms, core_forms, TreeSpace, G, N};
use cel_parser::Parser;
use serde_json::json;

fn parse(src: &str) -> Result<N, String> {
    match guard(|| Parser::new().parse(src)) {
        Ok(Ok(e)) => Ok(N::from_parsed(&e)),
        Ok(Err(e)) => Err(format!("compile-error: {}", crate::subj::first_line(&e.to_string()))),
        Err(p) => Err(format!("panic: {}", p)),
    }
}

fn parse_raw(src: &str) -> Result<N, String> {
    match guard(|| Parser::new().parse(src)) {
        Ok(Ok(e)) => Ok(N::from_parsed_opt(&e, false)),
        Ok(Err(e)) => Err(format!("compile-error: {}", crate::subj::first_line(&e.to_string()))),
        Err(p) => Err(format!("panic: {}", p)),
    }
}

fn outcome_tag(r: &Result<N, String>) -> &'static str {
    match r {
        Ok(_) => "parsed",
        Err(e) if e.starts_with("panic") => "panic",
        Err(_) => "compile-error",
    }
}

fn shape(g: &G) -> String {
    // root operator kind, used in failure keys
    match g {
        G::Ident(_) | G::Int(_) | G::Lit(..) => "leaf".into(),
        G::Cond(..) => "?:".into(),
        G::Bin(op, ..) => (*op).into(),
        G::Not(_) => "!".into(),
        G::Neg(_) => "neg".into(),
        G::Select(..) => "select".into(),
        G::Index(..) => "index".into(),
        G::Method(..) => "method".into(),
        G::Call(..) => "call".into(),
        G::List(_) => "list".into(),
        G::Map(_) => "map".into(),
        G::Struct(..) => "struct".into(),
    }
}

fn parse_exact(src: &str) -> Result<N, String> {
    match guard(|| Parser::new().parse(src)) {
        Ok(Ok(e)) => Ok(N::from_parsed_exact(&e)),
        Ok(Err(e)) => Err(format!("compile-error: {}", crate::subj::first_line(&e.to_string()))),
        Err(p) => Err(format!("panic: {}", p)),
    }
}

fn check_tree(run: &mut Run, g: &G, family: &str) {
    let exp_flat = N::from_g(g);
    // a fully parenthesised source leaves no chain to balance: the exact binary tree is demanded
    let exp_exact = N::from_g_exact(g);
    for (rname, src) in [("full", g.full()), ("min", g.min())] {
        let (got, exp) = if rname == "full" { (parse_exact(&src), &exp_exact) } else { (parse(&src), &exp_flat) };
        run.trans(1);
        let ok = matches!(&got, Ok(n) if n == exp);
        run.class(&format!("{}:{}:{}:{}", family, rname, outcome_tag(&got), if ok { "same" } else { "DIFF" }), || json!({"src": src, "expected": exp.show()}));
        if !ok {
            let gs = match &got {
                Ok(n) => n.show(),
                Err(e) => e.clone(),
            };
            run.fail(
                &format!("C04|{}|{}|root={}|{}", family, rname, shape(g), outcome_tag(&got)),
                format!("`{}` parsed to {} but the rendered tree is {}", src, gs, exp.show()),
                json!({"src": src, "rendering": rname}),
            );
        }
    }
    run.validated();
    if g.ops() >= 2 {
        run.nontrivial();
    }
}

pub fn run(run: &mut Run) {
    // ---- all trees with <= 3 operators over the complete operator set and 2 leaf kinds
    let sp = TreeSpace::new(all_forms(), 2, 3);
    for n in 0..=3usize {
        run.sub(&format!("trees-{}op", n));
        let cnt = sp.count(n) as u64;
        for i in 0..cnt {
            if !run.take() {
                continue;
            }
            let mut g = sp.unrank(n, i as u128);
            let mut c = 0;
            g.number_leaves("a", &mut c);
            check_tree(run, &g, "tree");
        }
    }
    // ---- repeated leaves: every tree with <= 2 operators with every assignment of the two names
    //      {a, b} (integers {1, 2}) to its leaves (the trees above have pairwise distinct leaves;
    //      a parser that recognises `x ? x : y` or `a && a` needs equal operands)
    for n in 1..=2usize {
        run.sub(&format!("trees-repeated-leaves-{}op", n));
        let cnt = sp.count(n) as u64;
        for i in 0..cnt {
            let g0 = sp.unrank(n, i as u128);
            let mut k = 0u32;
            g0.clone().map_leaves(&mut |_| k += 1);
            for code in 0..(1u64 << k) {
                if !run.take() {
                    continue;
                }
                let mut g = g0.clone();
                let mut c = code;
                g.map_leaves(&mut |leaf| {
                    let bit = c & 1;
                    c >>= 1;
                    match leaf {
                        G::Ident(name) => *name = if bit == 0 { "a".into() } else { "b".into() },
                        G::Int(v) => *v = 1 + bit,
                        _ => {}
                    }
                });
                check_tree(run, &g, "tree-repeated");
            }
        }
    }

    // ---- the extended form set (2-argument calls, 3-element lists, 2-entry maps, message
    //      construction): every tree with <= 2 (thorough 3) operators that uses an extended form
    {
        use crate::gast::ext_forms;
        let maxn = run.pick(2usize, 3usize);
        let spx = TreeSpace::new(ext_forms(), 2, maxn);
        for n in 1..=maxn {
            run.sub(&format!("trees-ext-{}op", n));
            let cnt = spx.count(n) as u64;
            for i in 0..cnt {
                if !run.take() {
                    continue;
                }
                let mut g = spx.unrank(n, i as u128);
                let mut c = 0;
                g.number_leaves("a", &mut c);
                check_tree(run, &g, "tree-ext");
            }
        }
    }
    // ---- thorough: all trees with exactly 4 operators over the infix/prefix/postfix forms
    if !run.quick() {
        let sp4 = TreeSpace::new(core_forms(), 2, 4);
        run.sub("trees-4op-core");
        let cnt = sp4.count(4) as u64;
        for i in 0..cnt {
            if !run.take() {
                continue;
            }
            let mut g = sp4.unrank(4, i as u128);
            let mut c = 0;
            g.number_leaves("a", &mut c);
            check_tree(run, &g, "tree4");
        }
    }

    // ---- every && chain and || chain of length 2..64, operands in source order
    run.sub("chains");
    for op in ["&&", "||"] {
        for len in 2..=64usize {
            for style in 0..3 {
                if !run.take() {
                    continue;
                }
                let names: Vec<String> = (0..len).map(|i| format!("v{}", i)).collect();
                let src = match style {
                    0 => names.join(&format!(" {} ", op)),
                    1 => names.join(op), // no spaces
                    _ => {
                        // the other operator interleaved at every third position: a && b || c && d ...
                        let other = if op == "&&" { "||" } else { "&&" };
                        let mut s = String::new();
                        for (i, n) in names.iter().enumerate() {
                            if i > 0 {
                                s.push_str(if i % 3 == 0 { other } else { op });
                            }
                            s.push_str(n);
                        }
                        s
                    }
                };
                let exp = if style < 2 {
                    N::Call(crate::gast::op_function(op).into(), None, names.iter().map(|n| N::Ident(n.clone())).collect())
                } else {
                    expected_mixed(op, &names)
                };
                let got = parse(&src);
                run.trans(1);
                run.validated();
                run.nontrivial();
                let ok = matches!(&got, Ok(n) if *n == exp);
                run.class(&format!("chain:{}:style{}:{}", op, style, if ok { "same" } else { "DIFF" }), || json!({"src": src}));
                if !ok {
                    run.fail(
                        &format!("C04|chain|{}|style{}|{}", op, style, outcome_tag(&got)),
                        format!("chain of {} operands `{}`: got {}", len, &src[..src.len().min(80)], match &got { Ok(n) => n.show(), Err(e) => e.clone() }),
                        json!({"src": src}),
                    );
                }
            }
        }
    }

    // ---- chains whose operands differ widely in size (1, 5, 35 and 71 AST nodes): source order
    //      must not depend on how big an operand is
    run.sub("chains-sized-operands");
    {
        let sizes = [0usize, 2, 17, 35];
        for op in ["&&", "||"] {
            for len in 2..=4usize {
                let total = sizes.len().pow(len as u32);
                for code in 0..total {
                    if !run.take() {
                        continue;
                    }
                    let mut c = code;
                    let mut parts: Vec<String> = vec![];
                    for k in 0..len {
                        let extra = sizes[c % sizes.len()];
                        c /= sizes.len();
                        // v<k> + 1 + 1 + ... (extra additions), parenthesised
                        let mut t = format!("v{}", k);
                        for _ in 0..extra {
                            t.push_str(" + 1");
                        }
                        parts.push(if extra > 0 { format!("({} > 0)", t) } else { t });
                    }
                    let src = parts.join(&format!(" {} ", op));
                    let exp_terms: Result<Vec<N>, String> = parts.iter().map(|p| parse(p)).collect();
                    let got = parse(&src);
                    run.trans(1 + len as u64);
                    run.validated();
                    run.nontrivial();
                    let ok = match (&exp_terms, &got) {
                        (Ok(terms), Ok(g)) => *g == N::Call(crate::gast::op_function(op).into(), None, terms.clone()),
                        _ => false,
                    };
                    run.class(&format!("chain-sized:{}:{}", op, if ok { "same" } else { "DIFF" }), || json!({"src": src}));
                    if !ok {
                        run.fail(
                            &format!("C04|chain-sized-operands|{}|{}", op, outcome_tag(&got)),
                            format!("`{}`: operands are not in source order: {}", &src[..src.len().min(120)], match &got { Ok(n) => n.show().chars().take(200).collect::<String>(), Err(e) => e.clone() }),
                            json!({"src": src}),
                        );
                    }
                }
            }
        }
    }

    // ---- prefix runs: an even number cancels
    run.sub("prefix-runs");
    for (op, fname) in [("!", "!_"), ("-", "-_")] {
        for operand in ["a", "1", "(a)", "a.f", "a[0]", "g(a)"] {
            for n in 1..=6usize {
                for spaced in [false, true] {
                    if !run.take() {
                        continue;
                    }
                    if op == "!" && operand == "1" && false {
                        continue;
                    }
                    let src = if spaced { format!("{}{}", format!("{} ", op).repeat(n), operand) } else { format!("{}{}", op.repeat(n), operand) };
                    let inner = parse(operand).expect("operand parses");
                    let exp = if n % 2 == 0 {
                        inner.clone()
                    } else if op == "-" && operand == "1" {
                        N::Lit("int:-1".into())
                    } else {
                        N::Call(fname.into(), None, vec![inner.clone()])
                    };
                    let got = parse(&src);
                    run.trans(1);
                    run.validated();
                    run.nontrivial();
                    let ok = matches!(&got, Ok(g) if *g == exp);
                    run.class(&format!("prefix:{}:n{}:{}", op, n, if ok { "same" } else { "DIFF" }), || json!({"src": src, "expected": exp.show()}));
                    if !ok {
                        run.fail(
                            &format!("C04|prefix-run|{}|{}|{}", op, if n % 2 == 0 { "even" } else { "odd" }, outcome_tag(&got)),
                            format!("`{}` parsed to {}, expected {}", src, match &got { Ok(n) => n.show(), Err(e) => e.clone() }, exp.show()),
                            json!({"src": src}),
                        );
                    }
                }
            }
        }
    }
    // prefix runs embedded in binary context: a - -b, a - --b, a && !!b
    run.sub("prefix-embedded");
    for (src, exp) in [
        ("a - -b", "_-_(a,-_(b))"),
        ("a - --b", "_-_(a,b)"),
        ("a--b", "_-_(a,-_(b))"),
        ("a && !!b", "_&&_(a,b)"),
        ("a && !!!b", "_&&_(a,!_(b))"),
        ("!!a ? --b : !!!c", "_?_:_(a,b,!_(c))"),
        ("[--a, !!b]", "[a,b]"),
        ("--a.f", "a.f"),
        ("-(-a)", "-_(-_(a))"),
        ("!(!a)", "!_(!_(a))"),
    ] {
        if !run.take() {
            continue;
        }
        let got = parse(src);
        run.trans(1);
        run.validated();
        run.nontrivial();
        let ok = matches!(&got, Ok(n) if n.show() == exp);
        run.class(&format!("prefix-embedded:{}", if ok { "same" } else { "DIFF" }), || json!({"src": src}));
        if !ok {
            run.fail(
                "C04|prefix-embedded",
                format!("`{}` parsed to {}, expected {}", src, match &got { Ok(n) => n.show(), Err(e) => e.clone() }, exp),
                json!({"src": src}),
            );
        }
    }

    // ---- macros expand around, never into, receiver and argument expressions
    let max_ops = run.pick(1usize, 2usize);
    let spm = TreeSpace::new(all_forms(), 2, max_ops);
    let macros: [(&str, usize); 7] = [("all", 2), ("exists", 2), ("exists_one", 2), ("existsOne", 2), ("map", 2), ("map", 3), ("filter", 2)];
    run.sub("macros");
    let mut trees: Vec<G> = vec![];
    for n in 0..=max_ops {
        for i in 0..spm.count(n) {
            trees.push(spm.unrank(n, i));
        }
    }
    for (mi, (m, arity)) in macros.iter().enumerate() {
        for role in 0..3 {
            // role 0: tree as receiver; 1: as body (last argument); 2: as filter argument of map/3
            if role == 2 && *arity != 3 {
                continue;
            }
            for t in trees.iter() {
                for rendering in 0..2 {
                    if !run.take() {
                        continue;
                    }
                    let mut recv = if role == 0 { t.clone() } else { G::Ident("r".into()) };
                    let mut body = if role == 1 { t.clone() } else { G::Bin("+", Box::new(G::Ident("x".into())), Box::new(G::Ident("bb".into()))) };
                    let mut filt = if role == 2 { t.clone() } else { G::Bin(">", Box::new(G::Ident("x".into())), Box::new(G::Ident("ff".into()))) };
                    let mut c = 100; // keep clear of the literals 0/1 used by the expansion templates
                    if role == 0 {
                        recv.number_leaves("r", &mut c);
                    }
                    if role == 1 {
                        body.number_leaves("b", &mut c);
                    }
                    if role == 2 {
                        filt.number_leaves("q", &mut c);
                    }
                    let p = |g: &G| if rendering == 0 { g.min() } else { g.full() };
                    // the receiver is a member-level operand: the minimal printer parenthesises it as needed
                    let recv_src = if rendering == 0 { G::Select(Box::new(recv.clone()), "zz".into()).min().trim_end_matches(".zz").to_string() } else { recv.full() };
                    let body_src = p(&body);
                    let filt_src = p(&filt);
                    let src = if *arity == 3 {
                        format!("{}.{}(x, {}, {})", recv_src, m, filt_src, body_src)
                    } else {
                        format!("{}.{}(x, {})", recv_src, m, body_src)
                    };
                    let got = parse_raw(&src);
                    run.trans(4);
                    run.validated();
                    run.nontrivial();
                    // the parts parsed on their own, exactly as the parser builds them
                    let (e_recv, e_body, e_filt) = match (parse_raw(&recv_src), parse_raw(&body_src), parse_raw(&filt_src)) {
                        (Ok(a), Ok(b), Ok(c)) => (a, b, c),
                        _ => {
                            run.fail(&format!("C04|macro|{}/{}|part-does-not-parse", m, arity), format!("a part of `{}` does not parse on its own", src), json!({"src": src}));
                            continue;
                        }
                    };
                    let verdict: Result<(), String> = match &got {
                        Ok(N::Compr { range, var, step, init, cond, result, .. }) => {
                            if **range != e_recv {
                                Err(format!("iteration range is {} but the receiver is {}", range.show(), e_recv.show()))
                            } else if var != "x" {
                                Err(format!("iteration variable is {}", var))
                            } else if step.count(&e_body) != 1 {
                                Err(format!("body {} occurs {} times in the loop step {}", e_body.show(), step.count(&e_body), step.show()))
                            } else if *arity == 3 && step.count(&e_filt) != 1 {
                                Err(format!("filter {} occurs {} times in the loop step", e_filt.show(), step.count(&e_filt)))
                            } else if init.count(&e_body) + cond.count(&e_body) + result.count(&e_body) + range.count(&e_body) != 0 && role == 1 {
                                Err("body occurs outside the loop step".into())
                            } else {
                                Ok(())
                            }
                        }
                        Ok(other) => Err(format!("not a comprehension: {}", other.show())),
                        Err(e) => Err(e.clone()),
                    };
                    run.class(&format!("macro:{}{}:role{}:{}", m, arity, role, if verdict.is_ok() { "ok" } else { "BAD" }), || json!({"src": src}));
                    if let Err(d) = verdict {
                        run.fail(&format!("C04|macro|{}/{}|role{}|{}", m, arity, role, outcome_tag(&got)), format!("`{}`: {}", src, d), json!({"src": src, "macro": mi}));
                    }
                }
            }
        }
    }
    // has(e.f): a presence test on exactly the operand written
    run.sub("has");
    for t in trees.iter() {
        if !run.take() {
            continue;
        }
        let mut recv = t.clone();
        let mut c = 0;
        recv.number_leaves("r", &mut c);
        let sel = G::Select(Box::new(recv.clone()), "fld".into());
        let src = format!("has({})", sel.min());
        let got = parse(&src);
        run.trans(1);
        run.validated();
        let exp = N::Select(Box::new(N::from_g(&recv)), "fld".into(), true);
        let ok = matches!(&got, Ok(n) if *n == exp);
        run.class(&format!("has:{}", if ok { "ok" } else { "BAD" }), || json!({"src": src}));
        if !ok {
            run.fail(&format!("C04|has|{}", outcome_tag(&got)), format!("`{}` parsed to {}", src, match &got { Ok(n) => n.show(), Err(e) => e.clone() }), json!({"src": src}));
        }
    }
}

/// expected tree of v0 op v1 op v2 OTHER v3 op ... (OTHER at every third gap)
fn expected_mixed(op: &str, names: &[String]) -> N {
    let other = if op == "&&" { "||" } else { "&&" };
    // split at the looser operator `||`
    let (outer, inner) = ("||", "&&");
    let mut groups: Vec<Vec<N>> = vec![vec![]];
    for (i, n) in names.iter().enumerate() {
        if i > 0 {
            let o = if i % 3 == 0 { other } else { op };
            if o == outer {
                groups.push(vec![]);
            }
        }
        groups.last_mut().unwrap().push(N::Ident(n.clone()));
    }
    let mut terms: Vec<N> = groups
        .into_iter()
        .map(|g| if g.len() == 1 { g.into_iter().next().unwrap() } else { N::Call(crate::gast::op_function(inner).into(), None, g) })
        .collect();
    if terms.len() == 1 {
        terms.pop().unwrap()
    } else {
        N::Call(crate::gast::op_function(outer).into(), None, terms)
    }
}

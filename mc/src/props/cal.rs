//! Oracle calibration (run by `./check setup`, not a property verdict): the reference
//! evaluator and the reference acceptor must reproduce a frozen list of expectations taken
//! from the repository's own test-suite.
use crate::core::Run;
use crate::mv::{Out, MV};
use crate::refparse::{verdict, Verdict};
use crate::reval::{b, call, eval, mcall, Env, Stop, E};
use crate::subj;
use cel_interpreter::Context;
use serde_json::json;

fn li(i: i64) -> E {
    E::Lit(MV::Int(i))
}
fn ls(s: &str) -> E {
    E::Lit(MV::s(s))
}
fn lst(v: Vec<E>) -> E {
    E::List(v)
}
fn x() -> E {
    E::Var("x".into())
}

pub fn run(run: &mut Run) {
    run.sub("reference-evaluator");
    let t = MV::Bool(true);
    let f = MV::Bool(false);
    // (expression built for the reference evaluator, value the repository's tests assert)
    let cases: Vec<(E, Result<MV, ()>)> = vec![
        (E::Bin("==", b(call("size", vec![lst(vec![li(1), li(2), li(3)])])), b(li(3))), Ok(t.clone())),
        (E::Bin("==", b(call("size", vec![ls("foo")])), b(li(3))), Ok(t.clone())),
        (E::Bin("==", b(mcall(ls("foobar"), "size", vec![])), b(li(6))), Ok(t.clone())),
        (E::Macro("map", b(lst(vec![li(1), li(2), li(3)])), "x".into(), vec![E::Bin("*", b(x()), b(li(2)))]), Ok(MV::List(vec![MV::Int(2), MV::Int(4), MV::Int(6)]))),
        (E::Macro("filter", b(lst(vec![li(1), li(2), li(3)])), "x".into(), vec![E::Bin(">", b(x()), b(li(2)))]), Ok(MV::List(vec![MV::Int(3)]))),
        (E::Macro("all", b(lst(vec![li(0), li(1), li(2)])), "x".into(), vec![E::Bin(">=", b(x()), b(li(0)))]), Ok(t.clone())),
        (E::Macro("all", b(lst(vec![li(0), li(1), li(2)])), "x".into(), vec![E::Bin(">", b(x()), b(li(0)))]), Ok(f.clone())),
        (E::Macro("exists", b(lst(vec![li(0), li(1), li(2)])), "x".into(), vec![E::Bin(">", b(x()), b(li(0)))]), Ok(t.clone())),
        (E::Macro("exists_one", b(lst(vec![li(0), li(1), li(2)])), "x".into(), vec![E::Bin(">", b(x()), b(li(0)))]), Ok(f.clone())),
        (E::Macro("exists_one", b(lst(vec![li(0), li(1), li(2)])), "x".into(), vec![E::Bin("==", b(x()), b(li(0)))]), Ok(t.clone())),
        (E::Bin("/", b(li(1)), b(li(0))), Err(())),
        (E::Bin("%", b(li(1)), b(li(0))), Err(())),
        (E::Bin("+", b(li(i64::MAX)), b(li(1))), Err(())),
        (E::Bin("%", b(li(i64::MIN)), b(li(-1))), Err(())),
        (E::Bin("-", b(E::Lit(MV::Uint(0))), b(E::Lit(MV::Uint(1)))), Err(())),
        (E::Bin("+", b(ls("foo")), b(li(10))), Err(())),
        (E::Bin("<", b(li(1)), b(call("uint", vec![li(2)]))), Ok(t.clone())),
        (E::Bin("<", b(li(1)), b(E::Lit(MV::f(1.1)))), Ok(t.clone())),
        (E::Bin(">", b(call("uint", vec![li(0)])), b(li(-10))), Ok(t.clone())),
        (E::Bin("==", b(E::Map(vec![])), b(lst(vec![]))), Ok(f.clone())),
        (E::Index(b(lst(vec![])), b(li(10))), Ok(MV::Null)),
        (mcall(ls("abc"), "startsWith", vec![ls("a")]), Ok(t.clone())),
        (mcall(ls("abc"), "endsWith", vec![ls("c")]), Ok(t.clone())),
        (mcall(ls("abc"), "contains", vec![ls("b")]), Ok(t.clone())),
        (mcall(lst(vec![li(1), li(2), li(3)]), "contains", vec![li(1)]), Ok(t.clone())),
        (call("max", vec![li(1), li(2), li(3)]), Ok(MV::Int(3))),
        (call("min", vec![lst(vec![li(4), li(2), li(3)])]), Ok(MV::Int(2))),
        (E::Bin("&&", b(E::Has(b(E::Map(vec![])), "x".into())), b(mcall(E::Select(b(E::Map(vec![])), "x".into()), "startsWith", vec![ls("foo")]))), Ok(f.clone())),
        (E::Bin("==", b(E::Select(b(E::Map(vec![(ls("bar"), li(1))])), "bar".into())), b(li(1))), Ok(t.clone())),
        (E::Var("missing".into()), Err(())),
        (call("missing", vec![li(1)]), Err(())),
        (E::Map(vec![(E::Lit(MV::Null), E::Lit(t.clone()))]), Err(())),
    ];
    let ctx = Context::default();
    for (e, want) in cases.iter() {
        if !run.take() {
            continue;
        }
        let mut env = Env::new();
        let r = eval(e, &mut env);
        let src = e.src();
        let got = subj::run_src(&src, &ctx);
        run.trans(1);
        let model_ok = match (want, &r) {
            (Ok(v), Ok(m)) => v == m,
            (Err(()), Err(Stop::Err(_))) => true,
            _ => false,
        };
        let subj_ok = match (want, &got) {
            (Ok(v), Out::Val(g)) => v == g,
            (Err(()), Out::Err(_)) => true,
            _ => false,
        };
        run.class(if model_ok && subj_ok { "agree" } else { "DISAGREE" }, || json!({"src": src}));
        if !model_ok {
            run.fail("CAL|reference-evaluator", format!("`{}`: the repository's tests assert {:?} but the reference evaluator gives {:?}", src, want, r), json!({"src": src}));
        }
        if !subj_ok {
            run.fail("CAL|subject", format!("`{}`: the repository's tests assert {:?} but the implementation gives {}", src, want, got.show()), json!({"src": src}));
        }
    }
    run.sub("reference-acceptor");
    // sources that the repository's parser tests accept / reject
    let accept = [
        "\"A\"", "true", "false", "\"hello\"", "0u", "23u", "0xAu", "-0xA", "0xA", "-1", "4--4", "4--4.1", "b\"abc\"", "23.39", "!a", "null", "a", "a?b:c", "a || b",
        "a || b || c || d || e || f ", "a && b", "a && b && c && d && e && f && g", "a && b && c && d || e && f && g && h", "a + b", "a - b", "a * b", "a / b", "a % b",
        "a in b", "a == b", "a != b", "a > b", "a >= b", "a < b", "a <= b", "a.b", "a.b.c", "a[b]", "(a)", "((a))", "a()", "a(b)", "a(b, c)", "a.b()", "a.b(c)",
        "foo{ }", "foo{ a:b }", "foo{ a:b, c:d }", "{}", "{a:b, c:d}", "[]", "[a]", "[a, b, c]", "has(m.f)", "m.exists_one(v, f)", "m.map(v, f)", "m.map(v, p, f)",
        "m.filter(v, p)", "x * 2", "x * 2u", "x * 2.0", "\"\\u2764\"", "! false", "-a", "a.b(5)", "a[3]", "SomeMessage{foo: 5, bar: \"xyz\"}", "[3, 4, 5]",
        "{foo: 5, bar: \"xyz\"}", "a > 5 && a < 10", "a < 5 || a > 10", "\"abc\" + \"def\"", "[1, 2].map(x, x * 2)", "size(requests) + size == 5",
    ];
    let reject = ["{", "1 + ", "a.b.", "[1, 2", "f(1,)", "a ? b", ")", "1 2", "a b", "'abc", "@", "a &&", "&& a", "()", "a..b", "{1}", "{1:}", "[1,,2]", "!-a", "-!a", "a ? b ? c : d : e"];
    for s in accept.iter() {
        if !run.take() {
            continue;
        }
        let v = verdict(s);
        run.class(&format!("accept:{:?}", v), || json!({"src": s}));
        if v == Verdict::Reject {
            run.fail("CAL|acceptor-too-strict", format!("the reference acceptor rejects `{}`, which the repository's parser tests accept", s), json!({"src": s}));
        }
    }
    for s in reject.iter() {
        if !run.take() {
            continue;
        }
        let v = verdict(s);
        run.class(&format!("reject:{:?}", v), || json!({"src": s}));
        if v == Verdict::Accept {
            run.fail("CAL|acceptor-too-liberal", format!("the reference acceptor accepts `{}`", s), json!({"src": s}));
        }
    }
}

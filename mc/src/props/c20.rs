//! C20 — function calls bind receiver and arguments predictably.
use crate::core::Run;
use crate::hosts;
use crate::mv::{Out, MK, MV};
use crate::props::c20_sigs::{register, sig, Sig, KINDS, NSIGS, P};
use crate::reval::Ev;
use crate::subj;
use cel_interpreter::{Context, Program, Value};
use serde_json::json;

fn values() -> Vec<MV> {
    vec![
        MV::Int(0),
        MV::Int(-7),
        MV::Int(i64::MAX),
        MV::Uint(3),
        MV::Uint(u64::MAX),
        MV::f(1.5),
        MV::f(f64::NAN),
        MV::f(-1e300),
        MV::Bool(true),
        MV::Null,
        MV::s(""),
        MV::s("abc"),
        MV::s("\u{e9}a"),
        MV::s("12"),
        MV::s("1.5"),
        MV::s("^a"),
        MV::Bytes(vec![]),
        MV::Bytes(b"ab".to_vec()),
        MV::List(vec![]),
        MV::List(vec![MV::Int(0), MV::s("abc")]),
        MV::Map(vec![]),
        MV::Map(vec![(MK::Str("abc".into()), MV::Int(0)), (MK::Int(0), MV::s("x"))]),
        MV::Duration(90, 0),
        MV::Timestamp(1_700_000_000, 123_000_000, 3600),
        MV::Timestamp(-1, 0, 0),
        named_keys_map(),
    ]
}

/// a map with one key spelled like each function under test, holding a value on which that
/// function succeeds: the receiver of `m.f()` is the map, never its entry `m.f`
fn named_keys_map() -> MV {
    let mut e: Vec<(MK, MV)> = vec![];
    for f in UNARY.iter().chain(BINARY.iter()).chain(["hf", "hf2"].iter()) {
        let v = match *f {
            "size" => MV::List(vec![MV::Int(1), MV::Int(2), MV::Int(3)]),
            "string" => MV::Int(5),
            "double" | "int" | "uint" => MV::s("12"),
            "contains" | "startsWith" | "endsWith" | "matches" => MV::s("abc"),
            "hf" | "hf2" => MV::Int(7),
            _ => MV::Timestamp(1_700_000_000, 0, 0),
        };
        e.push((MK::Str(f.to_string()), v));
    }
    MV::Map(e)
}

const UNARY: [&str; 15] = ["size", "string", "double", "int", "uint", "getFullYear", "getMonth", "getDayOfYear", "getDayOfMonth", "getDate", "getDayOfWeek", "getHours", "getMinutes", "getSeconds", "getMilliseconds"];
const BINARY: [&str; 4] = ["contains", "startsWith", "endsWith", "matches"];

fn same(a: &Out, b: &Out) -> bool {
    match (a, b) {
        (Out::Val(x), Out::Val(y)) => x == y,
        (Out::Err(x), Out::Err(y)) => x == y,
        _ => false,
    }
}

fn part_builtins(run: &mut Run) {
    let vals = values();
    let base = Context::default();
    run.sub("builtins-unary");
    for f in UNARY.iter() {
        let pm = Program::compile(&format!("x.{}()", f)).unwrap();
        let pg = Program::compile(&format!("{}(x)", f)).unwrap();
        for x in vals.iter() {
            if !run.take() {
                continue;
            }
            let mut ctx = base.new_inner_scope();
            ctx.add_variable_from_value("x", x.to_value());
            let a = subj::exec(&pm, &ctx);
            let b = subj::exec(&pg, &ctx);
            run.trans(2);
            run.validated();
            run.nontrivial();
            run.class(&format!("builtin:{}:{}:{}", f, x.kind(), a.tag()), || json!({"f": f, "x": x.show(), "method": a.show(), "global": b.show()}));
            if !same(&a, &b) {
                run.fail(
                    &format!("C20|builtin|{}|{}|method={}|global={}", f, x.kind(), a.tag(), b.tag()),
                    format!("x.{}() gave {} but {}(x) gave {} for x = {}", f, a.show(), f, b.show(), x.show()),
                    json!({"f": f, "x": x.show()}),
                );
            }
        }
    }
    run.sub("builtins-binary");
    for f in BINARY.iter() {
        let pm = Program::compile(&format!("x.{}(a)", f)).unwrap();
        let pg = Program::compile(&format!("{}(x, a)", f)).unwrap();
        for x in vals.iter() {
            for a in vals.iter() {
                if !run.take() {
                    continue;
                }
                let mut ctx = base.new_inner_scope();
                ctx.add_variable_from_value("x", x.to_value());
                ctx.add_variable_from_value("a", a.to_value());
                let ra = subj::exec(&pm, &ctx);
                let rb = subj::exec(&pg, &ctx);
                run.trans(2);
                run.validated();
                run.nontrivial();
                run.class(&format!("builtin:{}:{}-{}:{}", f, x.kind(), a.kind(), ra.tag()), || json!({"f": f, "x": x.show(), "a": a.show(), "method": ra.show(), "global": rb.show()}));
                if !same(&ra, &rb) {
                    run.fail(
                        &format!("C20|builtin|{}|{}-{}|method={}|global={}", f, x.kind(), a.kind(), ra.tag(), rb.tag()),
                        format!("x.{}(a) gave {} but {}(x, a) gave {} for x = {}, a = {}", f, ra.show(), f, rb.show(), x.show(), a.show()),
                        json!({"f": f, "x": x.show(), "a": a.show()}),
                    );
                }
            }
        }
    }
}

/// host functions that return their receiver / their receiver and argument, over every value
/// (in particular maps with a key spelled like the function)
fn part_host_receiver(run: &mut Run) {
    use cel_interpreter::extractors::This;
    use cel_interpreter::ExecutionError;
    use std::sync::Arc;
    let vals = values();
    let mut base = Context::default();
    base.add_function("hf", |This(t): This<Value>| -> Result<Value, ExecutionError> { Ok(t) });
    base.add_function("hf2", |This(t): This<Value>, a: Value| -> Result<Value, ExecutionError> { Ok(Value::List(Arc::new(vec![t, a]))) });
    run.sub("host-receiver");
    let progs: Vec<(&str, Program, Program)> = vec![
        ("hf", Program::compile("x.hf()").unwrap(), Program::compile("hf(x)").unwrap()),
        ("hf2", Program::compile("x.hf2(a)").unwrap(), Program::compile("hf2(x, a)").unwrap()),
        ("hf-lit", Program::compile("{'hf': 7}.hf()").unwrap(), Program::compile("hf({'hf': 7})").unwrap()),
        ("hf-nested", Program::compile("[x][0].hf()").unwrap(), Program::compile("hf([x][0])").unwrap()),
    ];
    for (name, pm, pg) in progs.iter() {
        for x in vals.iter() {
            for a in vals.iter() {
                if *name != "hf2" && !std::ptr::eq(a, &vals[0]) {
                    continue;
                }
                if !run.take() {
                    continue;
                }
                let mut ctx = base.new_inner_scope();
                ctx.add_variable_from_value("x", x.to_value());
                ctx.add_variable_from_value("a", a.to_value());
                let ra = subj::exec(pm, &ctx);
                let rb = subj::exec(pg, &ctx);
                run.trans(2);
                run.validated();
                run.nontrivial();
                run.class(&format!("host-receiver:{}:{}:{}", name, x.kind(), ra.tag()), || json!({"f": name, "x": x.show(), "method": ra.show(), "global": rb.show()}));
                // both styles agree, and the receiver the function saw is the value itself
                let expect = match *name {
                    "hf2" => MV::List(vec![x.clone(), a.clone()]),
                    "hf-lit" => MV::Map(vec![(MK::Str("hf".into()), MV::Int(7))]),
                    _ => x.clone(),
                };
                let ok = same(&ra, &rb) && matches!(&ra, Out::Val(v) if *v == MV::from_value(&expect.to_value()));
                if !ok {
                    run.fail(
                        &format!("C20|host-receiver|{}|{}|method={}|global={}", name, x.kind(), ra.tag(), rb.tag()),
                        format!("method style gave {} and global style gave {} for x = {} (the function returns its receiver; expected {})", ra.show(), rb.show(), x.show(), expect.show()),
                        json!({"f": name, "x": x.show(), "a": a.show()}),
                    );
                }
            }
        }
    }
}

/// a receiver whose evaluation fails: the call fails with it, whatever arguments follow (it never
/// turns into a function-style call on the remaining arguments)
fn part_failing_receiver(run: &mut Run) {
    use cel_interpreter::extractors::{Arguments, This};
    use cel_interpreter::ExecutionError;
    use std::sync::atomic::{AtomicUsize, Ordering};
    use std::sync::Arc;
    let calls = Arc::new(AtomicUsize::new(0));
    let mut ctx = Context::default();
    let c1 = calls.clone();
    ctx.add_function("hf", move |This(t): This<Value>| -> Result<Value, ExecutionError> {
        c1.fetch_add(1, Ordering::SeqCst);
        Ok(t)
    });
    let c2 = calls.clone();
    ctx.add_function("hv", move |Arguments(a): Arguments| -> Result<Value, ExecutionError> {
        c2.fetch_add(1, Ordering::SeqCst);
        Ok(Value::Int(a.len() as i64))
    });
    let c3 = calls.clone();
    ctx.add_function("hs", move |This(t): This<Arc<String>>, a: Arc<String>| -> Result<Value, ExecutionError> {
        c3.fetch_add(1, Ordering::SeqCst);
        Ok(Value::String(Arc::new(format!("{}{}", t, a))))
    });
    run.sub("failing-receiver");
    let receivers = ["missing", "(1 / 0)", "missing.f", "{'a': 1}.b", "(9223372036854775807 + 1)", "nofn(1)"];
    let calls_src = [
        "R.hf()", "R.hf(1)", "R.hf('x', 2)", "R.hv()", "R.hv(1, 2)", "R.hs('x')", "R.hs('x', 'y')", "R.size()", "R.size([1, 2])", "R.contains('a')", "R.contains('abc', 'a')", "R.startsWith('a', 'a')",
        "R.string()", "R.string(1)", "R.int('5')", "R.max(1, 2)", "R.matches('a', 'a')", "R.getFullYear(timestamp('2020-01-01T00:00:00Z'))", "R.duration('1s')", "R.bytes('a')", "R.double(1)",
    ];
    for r in receivers.iter() {
        for c in calls_src.iter() {
            if !run.take() {
                continue;
            }
            let src = c.replace('R', r);
            calls.store(0, Ordering::SeqCst);
            let got = subj::run_src(&src, &ctx);
            run.trans(2);
            run.validated();
            run.nontrivial();
            let n = calls.load(Ordering::SeqCst);
            run.class(&format!("failing-receiver:{}:{}", c, got.tag()), || json!({"src": src, "got": got.show()}));
            if !matches!(got, Out::Err(_)) || n != 0 {
                run.fail(
                    &format!("C20|failing-receiver|{}|got={}", c, got.tag()),
                    format!("`{}`: the receiver fails to evaluate, but the call gave {} ({} host invocation(s))", src, got.show(), n),
                    json!({"src": src}),
                );
            }
        }
    }
}

/// an argument as written in the call: (source, value it evaluates to, kind index or usize::MAX for a wrong kind, is it an identifier)
#[derive(Clone, Debug)]
struct Arg {
    src: &'static str,
    val: MV,
    ident: bool,
}

fn good(kind: usize) -> Arg {
    let (src, val): (&'static str, MV) = match kind {
        0 => ("1", MV::Int(1)),
        1 => ("2u", MV::Uint(2)),
        2 => ("1.5", MV::f(1.5)),
        3 => ("true", MV::Bool(true)),
        4 => ("'s'", MV::s("s")),
        5 => ("b'b'", MV::Bytes(b"b".to_vec())),
        6 => ("[1]", MV::List(vec![MV::Int(1)])),
        7 => ("duration('1s')", MV::Duration(1, 0)),
        8 => ("timestamp('1970-01-01T00:00:01Z')", MV::Timestamp(1, 0, 0)),
        _ => ("'v'", MV::s("v")),
    };
    Arg { src, val, ident: false }
}

fn wrong(which: usize) -> Arg {
    if which == 0 {
        Arg { src: "null", val: MV::Null, ident: false }
    } else {
        Arg { src: "{}", val: MV::Map(vec![]), ident: false }
    }
}

fn kind_ok(kind: usize, v: &MV) -> bool {
    kind == 9 || KINDS[kind] == v.kind()
}

#[derive(Debug, PartialEq)]
enum Expect {
    Invoked(Vec<MV>),
    Err,
    /// more arguments than parameters: either an error or an invocation with exactly this data
    InvokedOrErr(Vec<MV>),
}

fn model(s: &Sig, recv: &Option<Arg>, args: &[Arg]) -> Expect {
    let mut idx = 0usize;
    let mut seen: Vec<MV> = vec![];
    if s.ftx {
        // closures taking &FunctionContext report the receiver they can see through `ftx.this`
        seen.push(MV::Str(format!("ftx.this:{}", recv.as_ref().map(|r| r.val.show()).unwrap_or("none".into()))));
    }
    for p in s.params.iter() {
        match p {
            P::This(t) | P::ThisOpt(t) => {
                let v = match recv {
                    Some(r) => r.val.clone(),
                    None => {
                        if idx < args.len() {
                            idx += 1;
                            args[idx - 1].val.clone()
                        } else {
                            return Expect::Err;
                        }
                    }
                };
                let opt_null = matches!(p, P::ThisOpt(_)) && v == MV::Null;
                if !opt_null && !kind_ok(*t, &v) {
                    return Expect::Err;
                }
                seen.push(v);
            }
            P::Pos(t) => {
                if idx >= args.len() {
                    return Expect::Err;
                }
                let v = args[idx].val.clone();
                idx += 1;
                if !kind_ok(*t, &v) {
                    return Expect::Err;
                }
                seen.push(v);
            }
            P::Args => seen.push(MV::List(args.iter().map(|a| a.val.clone()).collect())),
            P::Ident => {
                if idx >= args.len() {
                    return Expect::Err;
                }
                let a = &args[idx];
                idx += 1;
                if !a.ident {
                    return Expect::Err;
                }
                seen.push(MV::Str(format!("ident:{}", a.src)));
            }
            P::Expr => {
                if idx >= args.len() {
                    return Expect::Err;
                }
                idx += 1;
                seen.push(MV::Str("expr:true".into()));
            }
        }
    }
    if idx < args.len() && !s.params.iter().any(|p| *p == P::Args) {
        Expect::InvokedOrErr(seen)
    } else {
        Expect::Invoked(seen)
    }
}

fn sig_tag(s: &Sig) -> String {
    let mut t = String::new();
    for p in &s.params {
        t.push_str(&match p {
            P::Pos(k) => format!("{},", KINDS[*k]),
            P::This(k) => format!("This<{}>,", KINDS[*k]),
            P::ThisOpt(k) => format!("This<Option<{}>>,", KINDS[*k]),
            P::Args => "Arguments,".into(),
            P::Ident => "Identifier,".into(),
            P::Expr => "Expression,".into(),
        });
    }
    if s.ftx {
        t.push_str("+ftx");
    }
    t
}

fn extractor_class(s: &Sig) -> &'static str {
    if s.params.iter().any(|p| matches!(p, P::Ident | P::Expr)) {
        "ident-expr"
    } else if s.params.iter().any(|p| matches!(p, P::Args)) {
        "arguments"
    } else if s.params.iter().any(|p| matches!(p, P::ThisOpt(_))) {
        "this-option"
    } else if s.params.iter().any(|p| matches!(p, P::This(_))) {
        "this"
    } else {
        "positional"
    }
}

/// `panics_only`: used by C02 ("host functions of any arity": execution never panics) with the
/// same calls; only unwinds are reported, under `prop`'s keys
pub fn part_hosts_for(run: &mut Run, prop: &str, panics_only: bool) {
    run.sub("host-signatures");
    let log = hosts::new_log();
    for i in 0..NSIGS {
        let s = sig(i);
        // parameters that consume an argument in global style
        let consuming: Vec<&P> = s.params.iter().filter(|p| !matches!(p, P::Args)).collect();
        let n = consuming.len();
        let has_this = s.params.iter().any(|p| matches!(p, P::This(_) | P::ThisOpt(_)));
        // a fresh name, the name of a built-in (override), and a name spelled like an operator
        // (operator function names start with `_`): dispatch must not depend on the spelling
        for (ni, name) in ["hf", "size", "_hf"].iter().enumerate() {
            let mut ctx = Context::default();
            ctx.add_variable_from_value("idv", Value::Int(5));
            register(&mut ctx, &log, i, name);
            for style in 0..2 {
                // in receiver style the This parameter binds the receiver and consumes no argument
                let arg_params: Vec<&P> = if style == 1 && has_this { consuming.iter().filter(|p| !matches!(p, P::This(_) | P::ThisOpt(_))).cloned().collect() } else { consuming.clone() };
                let n_args = arg_params.len();
                let _ = n;
                let matching = |p: &P| -> Arg {
                    match p {
                        P::Pos(k) | P::This(k) | P::ThisOpt(k) => good(*k),
                        // (under the underscore name the identifier is unbound: an Identifier parameter
                        // takes the name and never evaluates it)
                        P::Ident => Arg { src: if ni == 2 { "idu" } else { "idv" }, val: MV::Int(5), ident: true },
                        P::Expr => Arg { src: "(1 + 1)", val: MV::Int(2), ident: false },
                        P::Args => unreachable!(),
                    }
                };
                // receivers to try
                let recvs: Vec<Option<Arg>> = if style == 0 {
                    vec![None]
                } else if has_this {
                    let t = s.params.iter().find_map(|p| match p {
                        P::This(k) | P::ThisOpt(k) => Some(*k),
                        _ => None,
                    });
                    vec![Some(good(t.unwrap())), Some(wrong(0)), Some(wrong(1))]
                } else {
                    vec![Some(good(0))]
                };
                for recv in recvs.iter() {
                    for k in 0..=(n_args + 2) {
                        // variants: 0 = all matching; then one mismatching position x 2 wrong kinds
                        let variants = 1 + 2 * k.min(n_args);
                        for var in 0..variants {
                            if !run.take() {
                                continue;
                            }
                            let mut args: Vec<Arg> = (0..k).map(|j| if j < n_args { matching(arg_params[j]) } else { Arg { src: "7", val: MV::Int(7), ident: false } }).collect();
                            if var > 0 {
                                let pos = (var - 1) / 2;
                                args[pos] = match arg_params[pos] {
                                    P::Ident => Arg { src: if (var - 1) % 2 == 0 { "1" } else { "idv.x" }, val: MV::Int(1), ident: false },
                                    _ => wrong((var - 1) % 2),
                                };
                            }
                            let call = format!("{}{}({})", match recv { Some(r) => format!("{}.", if r.src == "1" || r.src == "1.5" || r.src == "2u" { format!("({})", r.src) } else { r.src.to_string() }), None => String::new() }, name, args.iter().map(|a| a.src).collect::<Vec<_>>().join(", "));
                            let exp = model(&s, recv, &args);
                            log.lock().unwrap().clear();
                            let got = subj::run_src(&call, &ctx);
                            run.trans(2);
                            run.validated();
                            run.nontrivial();
                            let calls: Vec<Ev> = log.lock().unwrap().clone();
                            let case = || json!({"signature": sig_tag(&s), "call": call, "expected": format!("{:?}", exp), "got": got.show(), "invocations": calls.len()});
                            let ec = extractor_class(&s);
                            let over = ["fresh", "override", "underscore-name"][ni];
                            run.class(&format!("host:{}:{}:{}:{}", ec, over, match exp { Expect::Invoked(_) => "bind", Expect::Err => "reject", Expect::InvokedOrErr(_) => "extra" }, got.tag()), case);
                            if let Out::Panic(p) = &got {
                                run.fail(&format!("{}|host|{}|{}|panic", prop, ec, over), format!("`{}` with signature ({}) panicked: {}", call, sig_tag(&s), p), case());
                                continue;
                            }
                            if panics_only {
                                continue;
                            }
                            let invoked_with = |vals: &Vec<MV>| calls.len() == 1 && matches!(&calls[0], Ev::Call(_, v) if v == vals);
                            let ok = match &exp {
                                Expect::Invoked(vals) => got == Out::Val(MV::Int(42)) && invoked_with(vals),
                                Expect::Err => matches!(got, Out::Err(_)) && calls.is_empty(),
                                Expect::InvokedOrErr(vals) => (matches!(got, Out::Err(_)) && calls.is_empty()) || (got == Out::Val(MV::Int(42)) && invoked_with(vals)),
                            };
                            if !ok {
                                let what = match (&exp, calls.len()) {
                                    (Expect::Err, c) if c > 0 => "invoked-despite-bad-arguments",
                                    (Expect::Err, _) => "no-error",
                                    (_, 0) => "not-invoked",
                                    (_, 1) => "invoked-with-different-data",
                                    _ => "invoked-more-than-once",
                                };
                                run.fail(
                                    &format!("C20|host|{}|{}|{}", ec, over, what),
                                    format!("`{}` with signature ({}): expected {:?}; got {} with invocations {:?}", call, sig_tag(&s), exp, got.show(), calls),
                                    case(),
                                );
                            }
                        }
                    }
                }
            }
        }
    }
}

pub fn run(run: &mut Run) {
    part_builtins(run);
    part_host_receiver(run);
    part_failing_receiver(run);
    part_hosts_for(run, "C20", false);
}

//! C19 — reported references cover every name a program can look up.
use crate::core::{guard, Run};
use crate::mv::{MK, MV};
use cel_interpreter::{Context, ExecutionError, Program};
use serde_json::json;
use std::collections::BTreeSet;

const BUILTIN_FUNCS: [&str; 24] = [
    "contains", "size", "max", "min", "startsWith", "endsWith", "string", "bytes", "double", "int", "uint", "matches", "duration", "timestamp",
    "getFullYear", "getMonth", "getDayOfYear", "getDayOfMonth", "getDate", "getDayOfWeek", "getHours", "getMinutes", "getSeconds", "getMilliseconds",
];
const OPERATORS: [&str; 22] = [
    "_?_:_", "_&&_", "_||_", "!_", "_-_", "_+_", "_*_", "_/_", "_%_", "_==_", "_!=_", "_>=_", "_<=_", "_>_", "_<_", "-_", "_[_]", "@in", "@not_strictly_false", "_[?_]",
    "_?._", "has",
];

/// position templates: `#` marks the hole
const TEMPLATES: [&str; 34] = [
    "(#) + 1", "1 - (#)", "(#) * (#)", "(#) < 2", "(#) == (#)", "(#) && true", "false || (#)", "!(#)", "-(#)", "(#) ? 1 : 2", "true ? (#) : 2", "false ? 1 : (#)",
    "(#) in [1]", "1 in (#)", "(#).size()", "size(#)", "(#)[0]", "[1, 2][#]", "{(#): 1}", "{1: (#)}", "[#, 1]", "T{f: (#)}", "(#).a.b", "(#).map(x, x)", "[1].map(x, #)",
    "[1].filter(x, #)", "has((#).f)", "[1].map(v1, (#) + v1)", "[1].all(x, #)", "[1].exists_one(x, #)", "[1].map(x, #, x)", "[1].exists(x, x == (#))", "max(1, #, 2)",
    "{'k': (#)}.k",
];

/// logic/conditional positions with every kind of literal as the sibling operand (the
/// interpreter decides by truthiness, so any literal kind can keep the other operand live)
fn sibling_templates() -> Vec<String> {
    let lits = ["true", "false", "1", "0", "'a'", "''", "null", "2.5", "0.0", "1u", "0u", "[1]", "[]", "{}", "{1: 1}", "b'a'", "b''"];
    let mut v = vec![];
    for l in lits {
        v.push(format!("{} && (#)", l));
        v.push(format!("{} || (#)", l));
        v.push(format!("(#) && {}", l));
        v.push(format!("(#) || {}", l));
        v.push(format!("{} ? (#) : 2", l));
        v.push(format!("{} ? 1 : (#)", l));
        v.push(format!("!({}) || (#)", l));
        v.push(format!("[1].all(x, {} && (#))", l));
        v.push(format!("[1].exists(x, {} || (#))", l));
    }
    v
}

fn fill(t: &str, fillers: &[&String]) -> String {
    let mut out = String::new();
    let mut k = 0;
    for c in t.chars() {
        if c == '#' {
            out.push_str(fillers[k.min(fillers.len() - 1)]);
            k += 1;
        } else {
            out.push(c);
        }
    }
    out
}

fn holes(t: &str) -> usize {
    t.matches('#').count()
}

/// all programs of template depth exactly 1 (holes filled by the base fillers)
/// returns (programs from the base position templates, programs from the sibling-literal
/// templates); only the former are used as fillers of the next level
fn level(prev: &[String]) -> (Vec<String>, Vec<String>) {
    // fillers derived from the previous level: the programs themselves, and the two call
    // wrappers around them
    // `_v2` starts with an underscore (a legal identifier start that is not a letter);
    // `w` is used both as a variable and as a function (the two namespaces are separate: a context
    // can define either, both or neither)
    let mut fillers: Vec<String> = vec![
        "v1".into(), "_v2".into(), "g1(v1)".into(), "_v2.g2(v1)".into(), "g1(_v2)".into(), "v1.g2(_v2)".into(), ".g1(v1)".into(), "._v2".into(), ".g1(.v1)".into(),
        "w".into(), "w(v1)".into(), "w(w)".into(), "v1.w(1)".into(),
    ];
    let nbase = fillers.len();
    for p in prev {
        fillers.push(format!("({})", p));
        fillers.push(format!("g1({})", p));
        fillers.push(format!("({}).g2(v1)", p));
        fillers.push(format!("_v2.g2({})", p));
    }
    let mut out = vec![];
    let mut out_sib = vec![];
    for t in sibling_templates().iter() {
        for f in fillers.iter() {
            out_sib.push(fill(t, &[f]));
        }
    }
    for t in TEMPLATES.iter() {
        if holes(t) == 1 {
            for f in fillers.iter() {
                out.push(fill(t, &[f]));
            }
        } else {
            // two holes: the full product over the base fillers, and each derived filler paired with v1/v2
            for (i, f) in fillers.iter().enumerate() {
                for (j, g) in fillers.iter().enumerate() {
                    if i < nbase && j < nbase || i < 2 || j < 2 {
                        out.push(fill(t, &[f, g]));
                    }
                }
            }
        }
    }
    (out, out_sib)
}

struct Ctx {
    ctx: Context<'static>,
    /// names defined as variables / as functions (separate namespaces)
    defined: BTreeSet<&'static str>,
    defined_fn: BTreeSet<&'static str>,
    profile: &'static str,
}

fn contexts() -> Vec<Ctx> {
    let names = ["v1", "_v2", "g1", "g2"];
    let mut v = vec![];
    for profile in ["ints", "collections"] {
        for mask in 0..64u32 {
            let mut ctx = Context::default();
            let mut defined = BTreeSet::new();
            let mut defined_fn = BTreeSet::new();
            if mask & 16 != 0 {
                defined.insert("w");
                ctx.add_variable_from_value("w", 1i64);
            }
            if mask & 32 != 0 {
                defined_fn.insert("w");
                ctx.add_function("w", |_a: cel_interpreter::extractors::Arguments| -> Result<cel_interpreter::Value, ExecutionError> { Ok(cel_interpreter::Value::Int(1)) });
            }
            for (i, n) in names.iter().enumerate() {
                if mask & (1 << i) == 0 {
                    continue;
                }
                if n.starts_with('g') {
                    defined_fn.insert(*n);
                } else {
                    defined.insert(*n);
                }
                match (*n, profile) {
                    ("v1", "ints") => ctx.add_variable_from_value("v1", 1i64),
                    ("_v2", "ints") => ctx.add_variable_from_value("_v2", 2i64),
                    ("v1", _) => {
                        let inner = MV::Map(vec![(MK::Str("b".into()), MV::List(vec![MV::Int(1)]))]);
                        let m = MV::Map(vec![(MK::Str("a".into()), inner), (MK::Str("f".into()), MV::Int(1))]);
                        ctx.add_variable_from_value("v1", m.to_value());
                    }
                    ("_v2", _) => ctx.add_variable_from_value("_v2", MV::List(vec![MV::Int(1), MV::Int(2)]).to_value()),
                    ("g1", _) => ctx.add_function("g1", |a: cel_interpreter::Value| -> Result<cel_interpreter::Value, ExecutionError> { Ok(a) }),
                    ("g2", _) => ctx.add_function("g2", |cel_interpreter::extractors::This(t): cel_interpreter::extractors::This<cel_interpreter::Value>, _a: cel_interpreter::Value| -> Result<cel_interpreter::Value, ExecutionError> { Ok(t) }),
                    _ => {}
                }
            }
            v.push(Ctx { ctx, defined, defined_fn, profile });
        }
    }
    v
}

fn idents_in(src: &str) -> BTreeSet<String> {
    let mut out = BTreeSet::new();
    let cs: Vec<char> = src.chars().collect();
    let mut i = 0;
    while i < cs.len() {
        if cs[i].is_ascii_alphabetic() || cs[i] == '_' {
            let mut j = i;
            while j < cs.len() && (cs[j].is_ascii_alphanumeric() || cs[j] == '_') {
                j += 1;
            }
            out.insert(cs[i..j].iter().collect());
            i = j;
        } else if cs[i] == '\'' {
            // skip string literals
            i += 1;
            while i < cs.len() && cs[i] != '\'' {
                i += 1;
            }
            i += 1;
        } else {
            i += 1;
        }
    }
    out
}

pub fn run(run: &mut Run) {
    let ctxs = contexts();
    let depth = run.pick(2usize, 3usize);
    let mut prev: Vec<String> = vec![];
    for d in 1..=depth {
        // the derived fillers of the deepest level are thinned to every k-th program so that the
        // last level stays enumerable; all shallower levels are complete
        // (the step is chosen so that the last level has about 6 M programs)
        let step = (prev.len() * 4 * 190 / 6_000_000).max(7);
        let base: Vec<String> = if d == 3 { prev.iter().step_by(step).cloned().collect() } else { prev.clone() };
        crate::core::heartbeat();
        let (progs, sib) = level(&base);
        crate::core::heartbeat();
        if d == 3 {
            run.rep.extra.insert("depth3_filler_step".into(), json!(step));
        }
        run.sub(&format!("depth{}", d));
        for src in progs.iter().chain(sib.iter()) {
            if !run.take() {
                continue;
            }
            check_program(run, src, &ctxs);
        }
        prev = progs;
    }
}

fn check_program(run: &mut Run, src: &str, ctxs: &[Ctx]) {
    let case = || json!({"src": src});
    let prog = match guard(|| Program::compile(src)) {
        Ok(Ok(p)) => p,
        Ok(Err(e)) => {
            run.fail("C19|does-not-compile", format!("`{}`: {}", src, crate::subj::first_line(&e.to_string())), case());
            return;
        }
        Err(p) => {
            run.fail("C19|compile-panic", format!("`{}`: {}", src, p), case());
            return;
        }
    };
    run.trans(1);
    let refs = match guard(|| {
        let r = prog.references();
        let mut vars: Vec<String> = r.variables().iter().map(|s| s.to_string()).collect();
        let mut funcs: Vec<String> = r.functions().iter().map(|s| s.to_string()).collect();
        vars.sort();
        funcs.sort();
        let consistent = vars.iter().all(|v| r.has_variable(v)) && funcs.iter().all(|f| r.has_function(f));
        (vars, funcs, consistent)
    }) {
        Ok(x) => x,
        Err(p) => {
            run.fail("C19|references-panic", format!("references() of `{}` panicked: {}", src, p), case());
            return;
        }
    };
    let (vars, funcs, consistent) = refs;
    if !consistent {
        run.fail("C19|has-vs-list", format!("`{}`: has_variable/has_function disagree with variables()/functions()", src), case());
    }
    // (4) identical across repeated calls
    let again = guard(|| {
        let r = prog.references();
        let mut v: Vec<String> = r.variables().iter().map(|s| s.to_string()).collect();
        let mut f: Vec<String> = r.functions().iter().map(|s| s.to_string()).collect();
        v.sort();
        f.sort();
        (v, f)
    });
    if again != Ok((vars.clone(), funcs.clone())) {
        run.fail("C19|not-repeatable", format!("`{}`: references() differs between two calls", src), case());
    }
    // (3) every reported variable occurs as an identifier in the source; no internal names
    let ids = idents_in(src);
    for v in &vars {
        if v.starts_with('@') {
            run.fail("C19|internal-name-reported", format!("`{}` reports the macro-internal variable {}", src, v), case());
        } else if !ids.contains(v) {
            run.fail("C19|reported-variable-not-in-source", format!("`{}` reports variable {} which does not occur in the source", src, v), case());
        }
    }
    let mut outcome_classes = BTreeSet::new();
    for c in ctxs.iter() {
        let r = guard(|| prog.execute(&c.ctx));
        run.trans(1);
        // references() must not depend on the context: re-read after each execution profile
        let premise = vars.iter().all(|v| c.defined.contains(v.as_str()))
            && funcs.iter().all(|f| c.defined_fn.contains(f.as_str()) || BUILTIN_FUNCS.contains(&f.as_str()) || OPERATORS.contains(&f.as_str()));
        let tag;
        match &r {
            Err(_) => {
                tag = "unwind"; // not a C19 failure (C02's business)
            }
            Ok(Ok(_)) => tag = "value",
            Ok(Err(ExecutionError::UndeclaredReference(n))) => {
                tag = "undeclared";
                let n = n.as_str();
                if !vars.iter().any(|v| v == n) && !funcs.iter().any(|f| f == n) {
                    run.fail(
                        &format!("C19|undeclared-name-not-reported|{}", c.profile),
                        format!("`{}` failed with UndeclaredReference({}) but reports variables {:?} functions {:?} (defined: variables {:?} functions {:?})", src, n, vars, funcs, c.defined, c.defined_fn),
                        case(),
                    );
                }
                if premise {
                    run.fail(
                        &format!("C19|undeclared-despite-all-defined|{}", c.profile),
                        format!("`{}` failed with UndeclaredReference({}) although every reported name is defined (variables {:?} functions {:?}, defined variables {:?} functions {:?})", src, n, vars, funcs, c.defined, c.defined_fn),
                        case(),
                    );
                }
            }
            Ok(Err(_)) => tag = "other-error",
        }
        outcome_classes.insert(format!("{}{}", tag, if premise { "+all-defined" } else { "" }));
    }
    run.validated();
    if outcome_classes.iter().any(|c| c.starts_with("undeclared")) {
        run.nontrivial();
    }
    let cls: Vec<String> = outcome_classes.into_iter().collect();
    run.class(&cls.join(","), || json!({"src": src, "variables": vars, "functions": funcs}));
}

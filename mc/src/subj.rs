//! Thin, guarded access to the subject (the real cel-rust code paths).
use crate::core::guard;
use crate::mv::{out_of, Out};
use cel_interpreter::{Context, Program};

pub fn compile(src: &str) -> Result<Program, Out> {
    match guard(|| Program::compile(src)) {
        Ok(Ok(p)) => Ok(p),
        Ok(Err(e)) => Err(Out::CompileErr(first_line(&e.to_string()))),
        Err(p) => Err(Out::Panic(p)),
    }
}

pub fn first_line(s: &str) -> String {
    s.lines().next().unwrap_or("").chars().take(120).collect()
}

pub fn exec(p: &Program, ctx: &Context) -> Out {
    out_of(guard(|| p.execute(ctx)))
}

pub fn run_src(src: &str, ctx: &Context) -> Out {
    match compile(src) {
        Ok(p) => exec(&p, ctx),
        Err(o) => o,
    }
}

//! Generator AST `G` owned by the harness (never the parser's AST), its two printers,
//! a ranked enumeration of all trees with a given number of operators, and the
//! normalised comparison tree `N`.
use cel_parser::ast::{EntryExpr, Expr, IdedExpr};
use cel_parser::reference::Val;

#[derive(Clone, Debug, PartialEq)]
pub enum G {
    Ident(String),
    Int(u64),
    /// any other literal, given as source text and expected normal form
    Lit(String, String),
    Cond(Box<G>, Box<G>, Box<G>),
    Bin(&'static str, Box<G>, Box<G>),
    Not(Box<G>),
    Neg(Box<G>),
    Select(Box<G>, String),
    Index(Box<G>, Box<G>),
    Method(Box<G>, String, Vec<G>),
    Call(String, Vec<G>),
    List(Vec<G>),
    Map(Vec<(G, G)>),
    /// message construction `T{f: x, ...}`
    Struct(String, Vec<(String, G)>),
}

pub const BINOPS: [&str; 14] = ["||", "&&", "<", "<=", ">=", ">", "==", "!=", "in", "+", "-", "*", "/", "%"];

/// CEL precedence levels, higher binds tighter.
fn level(g: &G) -> u8 {
    match g {
        G::Cond(..) => 1,
        G::Bin(op, ..) => match *op {
            "||" => 2,
            "&&" => 3,
            "<" | "<=" | ">=" | ">" | "==" | "!=" | "in" => 4,
            "+" | "-" => 5,
            _ => 6,
        },
        G::Not(_) | G::Neg(_) => 7,
        G::Select(..) | G::Index(..) | G::Method(..) => 8,
        _ => 9,
    }
}

/// Function name of an operator per the CEL specification (not taken from the subject).
pub fn op_function(op: &str) -> &'static str {
    match op {
        "||" => "_||_",
        "&&" => "_&&_",
        "<" => "_<_",
        "<=" => "_<=_",
        ">=" => "_>=_",
        ">" => "_>_",
        "==" => "_==_",
        "!=" => "_!=_",
        "in" => "@in",
        "+" => "_+_",
        "-" => "_-_",
        "*" => "_*_",
        "/" => "_/_",
        "%" => "_%_",
        _ => unreachable!(),
    }
}

impl G {
    /// Minimal parenthesisation under CEL's precedence table: parentheses exactly where
    /// removing them would change the tree.
    pub fn min(&self) -> String {
        let mut s = String::new();
        self.pmin(&mut s, 1);
        s
    }
    fn pmin(&self, o: &mut String, need: u8) {
        let lv = level(self);
        let paren = lv < need;
        if paren {
            o.push('(');
        }
        match self {
            G::Ident(n) => o.push_str(n),
            G::Int(i) => o.push_str(&i.to_string()),
            G::Lit(t, _) => o.push_str(t),
            G::Cond(c, t, e) => {
                c.pmin(o, 2);
                o.push_str(" ? ");
                t.pmin(o, 2);
                o.push_str(" : ");
                e.pmin(o, 1);
            }
            G::Bin(op, l, r) => {
                // all binary operators are left-associative: the right operand needs the next level.
                // (for || and && a same-operator right operand keeps its parentheses; the comparison
                // flattens chains, so only operand order matters there)
                l.pmin(o, lv);
                o.push(' ');
                o.push_str(op);
                o.push(' ');
                r.pmin(o, lv + 1);
            }
            G::Not(x) => {
                o.push('!');
                x.pmin(o, 8);
            }
            G::Neg(x) => {
                o.push('-');
                // `-1[a]` and `-1.f` are the signed literal `-1` indexed/selected, not a negation:
                // an operand whose text starts with a digit keeps its parentheses
                let mut t = String::new();
                x.pmin(&mut t, 8);
                if t.starts_with(|c: char| c.is_ascii_digit()) && !matches!(**x, G::Int(_)) {
                    o.push('(');
                    o.push_str(&t);
                    o.push(')');
                } else {
                    o.push_str(&t);
                }
            }
            G::Select(x, f) => {
                x.pmin(o, 8);
                o.push('.');
                o.push_str(f);
            }
            G::Index(x, i) => {
                x.pmin(o, 8);
                o.push('[');
                i.pmin(o, 1);
                o.push(']');
            }
            G::Method(x, m, args) => {
                x.pmin(o, 8);
                o.push('.');
                o.push_str(m);
                o.push('(');
                for (k, a) in args.iter().enumerate() {
                    if k > 0 {
                        o.push_str(", ");
                    }
                    a.pmin(o, 1);
                }
                o.push(')');
            }
            G::Call(f, args) => {
                o.push_str(f);
                o.push('(');
                for (k, a) in args.iter().enumerate() {
                    if k > 0 {
                        o.push_str(", ");
                    }
                    a.pmin(o, 1);
                }
                o.push(')');
            }
            G::List(es) => {
                o.push('[');
                for (k, a) in es.iter().enumerate() {
                    if k > 0 {
                        o.push_str(", ");
                    }
                    a.pmin(o, 1);
                }
                o.push(']');
            }
            G::Map(es) => {
                o.push('{');
                for (k, (a, b)) in es.iter().enumerate() {
                    if k > 0 {
                        o.push_str(", ");
                    }
                    a.pmin(o, 1);
                    o.push_str(": ");
                    b.pmin(o, 1);
                }
                o.push('}');
            }
            G::Struct(n, fs) => {
                o.push_str(n);
                o.push('{');
                for (k, (f, b)) in fs.iter().enumerate() {
                    if k > 0 {
                        o.push_str(", ");
                    }
                    o.push_str(f);
                    o.push_str(": ");
                    b.pmin(o, 1);
                }
                o.push('}');
            }
        }
        if paren {
            o.push(')');
        }
    }

    /// Fully parenthesised rendering: every operator application is wrapped.
    pub fn full(&self) -> String {
        let mut s = String::new();
        self.pfull(&mut s);
        s
    }
    fn pfull(&self, o: &mut String) {
        let leaf = matches!(self, G::Ident(_) | G::Int(_) | G::Lit(..));
        if !leaf {
            o.push('(');
        }
        match self {
            G::Ident(n) => o.push_str(n),
            G::Int(i) => o.push_str(&i.to_string()),
            G::Lit(t, _) => o.push_str(t),
            G::Cond(c, t, e) => {
                c.pfull(o);
                o.push_str(" ? ");
                t.pfull(o);
                o.push_str(" : ");
                e.pfull(o);
            }
            G::Bin(op, l, r) => {
                l.pfull(o);
                o.push(' ');
                o.push_str(op);
                o.push(' ');
                r.pfull(o);
            }
            G::Not(x) => {
                o.push('!');
                x.pfull_operand(o);
            }
            G::Neg(x) => {
                o.push('-');
                x.pfull_operand(o);
            }
            G::Select(x, f) => {
                x.pfull_operand(o);
                o.push('.');
                o.push_str(f);
            }
            G::Index(x, i) => {
                x.pfull_operand(o);
                o.push('[');
                i.pfull(o);
                o.push(']');
            }
            G::Method(x, m, args) => {
                x.pfull_operand(o);
                o.push('.');
                o.push_str(m);
                o.push('(');
                for (k, a) in args.iter().enumerate() {
                    if k > 0 {
                        o.push_str(", ");
                    }
                    a.pfull(o);
                }
                o.push(')');
            }
            G::Call(f, args) => {
                o.push_str(f);
                o.push('(');
                for (k, a) in args.iter().enumerate() {
                    if k > 0 {
                        o.push_str(", ");
                    }
                    a.pfull(o);
                }
                o.push(')');
            }
            G::List(es) => {
                o.push('[');
                for (k, a) in es.iter().enumerate() {
                    if k > 0 {
                        o.push_str(", ");
                    }
                    a.pfull(o);
                }
                o.push(']');
            }
            G::Map(es) => {
                o.push('{');
                for (k, (a, b)) in es.iter().enumerate() {
                    if k > 0 {
                        o.push_str(", ");
                    }
                    a.pfull(o);
                    o.push_str(": ");
                    b.pfull(o);
                }
                o.push('}');
            }
            G::Struct(n, fs) => {
                o.push_str(n);
                o.push('{');
                for (k, (f, b)) in fs.iter().enumerate() {
                    if k > 0 {
                        o.push_str(", ");
                    }
                    o.push_str(f);
                    o.push_str(": ");
                    b.pfull(o);
                }
                o.push('}');
            }
        }
        if !leaf {
            o.push(')');
        }
    }
    /// operand of a prefix/postfix operator in the full rendering: a leaf int is wrapped too,
    /// so that `-(1)` stays an application of unary minus and `(1).f` never glues into a float
    fn pfull_operand(&self, o: &mut String) {
        if matches!(self, G::Int(_)) {
            o.push('(');
            self.pfull(o);
            o.push(')');
        } else {
            self.pfull(o);
        }
    }

    pub fn ops(&self) -> usize {
        match self {
            G::Ident(_) | G::Int(_) | G::Lit(..) => 0,
            G::Cond(a, b, c) => 1 + a.ops() + b.ops() + c.ops(),
            G::Bin(_, a, b) | G::Index(a, b) => 1 + a.ops() + b.ops(),
            G::Not(a) | G::Neg(a) | G::Select(a, _) => 1 + a.ops(),
            G::Method(x, _, args) => 1 + x.ops() + args.iter().map(|a| a.ops()).sum::<usize>(),
            G::Call(_, args) | G::List(args) => 1 + args.iter().map(|a| a.ops()).sum::<usize>(),
            G::Map(es) => 1 + es.iter().map(|(a, b)| a.ops() + b.ops()).sum::<usize>(),
            G::Struct(_, fs) => 1 + fs.iter().map(|(_, b)| b.ops()).sum::<usize>(),
        }
    }

    /// Rename leaves left to right (a0, a1, ... / 0, 1, ...) so that operand order is observable.
    /// visits every identifier / integer leaf in source order
    pub fn map_leaves(&mut self, f: &mut dyn FnMut(&mut G)) {
        match self {
            G::Ident(_) | G::Int(_) => f(self),
            G::Lit(..) => {}
            G::Cond(a, b, d) => {
                a.map_leaves(f);
                b.map_leaves(f);
                d.map_leaves(f);
            }
            G::Bin(_, a, b) | G::Index(a, b) => {
                a.map_leaves(f);
                b.map_leaves(f);
            }
            G::Not(a) | G::Neg(a) | G::Select(a, _) => a.map_leaves(f),
            G::Method(x, _, args) => {
                x.map_leaves(f);
                for a in args {
                    a.map_leaves(f);
                }
            }
            G::Call(_, args) | G::List(args) => {
                for a in args {
                    a.map_leaves(f);
                }
            }
            G::Map(es) => {
                for (a, b) in es {
                    a.map_leaves(f);
                    b.map_leaves(f);
                }
            }
            G::Struct(_, fs) => {
                for (_, b) in fs {
                    b.map_leaves(f);
                }
            }
        }
    }

    pub fn number_leaves(&mut self, prefix: &str, c: &mut u64) {
        match self {
            G::Ident(n) => {
                *n = format!("{}{}", prefix, *c);
                *c += 1;
            }
            G::Int(i) => {
                *i = *c;
                *c += 1;
            }
            G::Lit(..) => {}
            G::Cond(a, b, d) => {
                a.number_leaves(prefix, c);
                b.number_leaves(prefix, c);
                d.number_leaves(prefix, c);
            }
            G::Bin(_, a, b) | G::Index(a, b) => {
                a.number_leaves(prefix, c);
                b.number_leaves(prefix, c);
            }
            G::Not(a) | G::Neg(a) | G::Select(a, _) => a.number_leaves(prefix, c),
            G::Method(x, _, args) => {
                x.number_leaves(prefix, c);
                for a in args {
                    a.number_leaves(prefix, c);
                }
            }
            G::Call(_, args) | G::List(args) => {
                for a in args {
                    a.number_leaves(prefix, c);
                }
            }
            G::Map(es) => {
                for (a, b) in es {
                    a.number_leaves(prefix, c);
                    b.number_leaves(prefix, c);
                }
            }
            G::Struct(_, fs) => {
                for (_, b) in fs {
                    b.number_leaves(prefix, c);
                }
            }
        }
    }
}

// ---------------------------------------------------------------------------
// ranked enumeration

#[derive(Clone, Copy, Debug, PartialEq)]
pub enum Form {
    Bin(usize),
    Cond,
    Not,
    Neg,
    Select,
    Index,
    Method0,
    Method1,
    Call0,
    Call1,
    List1,
    List2,
    Map1,
    Call2,
    Method2,
    List3,
    Map2,
    Struct1,
    Struct2,
}

impl Form {
    pub fn arity(&self) -> usize {
        match self {
            Form::Bin(_) | Form::Index | Form::Method1 | Form::List2 | Form::Map1 | Form::Call2 | Form::Struct2 => 2,
            Form::Cond | Form::Method2 | Form::List3 => 3,
            Form::Map2 => 4,
            Form::Call0 => 0,
            _ => 1,
        }
    }
    pub fn build(&self, mut kids: Vec<G>) -> G {
        let mut next = || Box::new(kids.remove(0));
        match self {
            Form::Bin(i) => G::Bin(BINOPS[*i], next(), next()),
            Form::Cond => G::Cond(next(), next(), next()),
            Form::Not => G::Not(next()),
            Form::Neg => G::Neg(next()),
            Form::Select => G::Select(next(), "f".into()),
            Form::Index => G::Index(next(), next()),
            Form::Method0 => G::Method(next(), "m".into(), vec![]),
            Form::Method1 => G::Method(next(), "m".into(), vec![*next()]),
            Form::Call0 => G::Call("g".into(), vec![]),
            Form::Call1 => G::Call("g".into(), vec![*next()]),
            Form::List1 => G::List(vec![*next()]),
            Form::List2 => G::List(vec![*next(), *next()]),
            Form::Map1 => G::Map(vec![(*next(), *next())]),
            Form::Call2 => G::Call("g".into(), vec![*next(), *next()]),
            Form::Method2 => G::Method(next(), "m".into(), vec![*next(), *next()]),
            Form::List3 => G::List(vec![*next(), *next(), *next()]),
            Form::Map2 => G::Map(vec![(*next(), *next()), (*next(), *next())]),
            Form::Struct1 => G::Struct("T".into(), vec![("f".into(), *next())]),
            Form::Struct2 => G::Struct("pkg.T".into(), vec![("f".into(), *next()), ("g".into(), *next())]),
        }
    }
}

pub fn all_forms() -> Vec<Form> {
    let mut v: Vec<Form> = (0..BINOPS.len()).map(Form::Bin).collect();
    v.extend_from_slice(&[
        Form::Cond, Form::Not, Form::Neg, Form::Select, Form::Index, Form::Method0, Form::Method1, Form::Call0, Form::Call1, Form::List1,
        Form::List2, Form::Map1,
    ]);
    v
}

/// the complete form set plus multi-argument calls, longer literals and message construction
pub fn ext_forms() -> Vec<Form> {
    let mut v = all_forms();
    v.extend_from_slice(&[Form::Call2, Form::Method2, Form::List3, Form::Map2, Form::Struct1, Form::Struct2]);
    v
}

/// infix / prefix / postfix forms only (the thorough 4-operator space)
pub fn core_forms() -> Vec<Form> {
    let mut v: Vec<Form> = (0..BINOPS.len()).map(Form::Bin).collect();
    v.extend_from_slice(&[Form::Cond, Form::Not, Form::Neg, Form::Select, Form::Index]);
    v
}

pub struct TreeSpace {
    pub forms: Vec<Form>,
    pub leaves: u64,
    /// counts[n] = number of trees with exactly n operators
    pub counts: Vec<u128>,
}

fn compositions(total: usize, parts: usize) -> Vec<Vec<usize>> {
    if parts == 0 {
        return if total == 0 { vec![vec![]] } else { vec![] };
    }
    if parts == 1 {
        return vec![vec![total]];
    }
    let mut out = vec![];
    for first in 0..=total {
        for mut rest in compositions(total - first, parts - 1) {
            let mut v = vec![first];
            v.append(&mut rest);
            out.push(v);
        }
    }
    out
}

impl TreeSpace {
    pub fn new(forms: Vec<Form>, leaves: u64, max_ops: usize) -> TreeSpace {
        let mut counts: Vec<u128> = vec![leaves as u128];
        for n in 1..=max_ops {
            let mut c: u128 = 0;
            for f in &forms {
                for comp in compositions(n - 1, f.arity()) {
                    let mut b: u128 = 1;
                    for p in &comp {
                        b *= counts[*p];
                    }
                    c += b;
                }
            }
            counts.push(c);
        }
        TreeSpace { forms, leaves, counts }
    }
    pub fn count(&self, n: usize) -> u128 {
        self.counts[n]
    }
    /// The `i`-th tree with exactly `n` operators (leaves not yet numbered).
    pub fn unrank(&self, n: usize, mut i: u128) -> G {
        if n == 0 {
            return if i == 0 { G::Ident("a".into()) } else { G::Int(0) };
        }
        for f in &self.forms {
            for comp in compositions(n - 1, f.arity()) {
                let mut b: u128 = 1;
                for p in &comp {
                    b *= self.counts[*p];
                }
                if i < b {
                    let mut kids = vec![];
                    for p in comp.iter() {
                        let c = self.counts[*p];
                        kids.push(self.unrank(*p, i % c));
                        i /= c;
                    }
                    return f.build(kids);
                }
                i -= b;
            }
        }
        unreachable!("rank out of range")
    }
}

// ---------------------------------------------------------------------------
// normalised comparison tree

#[derive(Clone, Debug, PartialEq)]
pub enum N {
    Ident(String),
    Lit(String),
    Call(String, Option<Box<N>>, Vec<N>),
    Select(Box<N>, String, bool),
    List(Vec<N>),
    Map(Vec<(N, N)>),
    Struct(String, Vec<(String, N)>),
    Compr {
        range: Box<N>,
        var: String,
        accu: String,
        init: Box<N>,
        cond: Box<N>,
        step: Box<N>,
        result: Box<N>,
    },
    Unspecified,
}

fn val_text(v: &Val) -> String {
    match v {
        Val::Int(i) => format!("int:{}", i),
        Val::UInt(u) => format!("uint:{}", u),
        Val::Double(d) => format!("double:{:?}", d),
        Val::String(s) => format!("string:{:?}", s),
        Val::Bytes(b) => format!("bytes:{:?}", b),
        Val::Boolean(b) => format!("bool:{}", b),
        Val::Null => "null".into(),
    }
}

fn flatten_logic(func: &str, args: Vec<N>) -> N {
    flatten_logic_opt(func, args, true)
}

/// `chains == false`: logical chains keep the exact binary shape; only `-literal` is folded
fn flatten_logic_opt(func: &str, args: Vec<N>, chains: bool) -> N {
    if chains && (func == "_||_" || func == "_&&_") {
        let mut flat = vec![];
        for a in args {
            match a {
                N::Call(f2, None, inner) if f2 == func => flat.extend(inner),
                other => flat.push(other),
            }
        }
        N::Call(func.to_string(), None, flat)
    } else if func == "-_" && args.len() == 1 {
        // unary minus applied to an int literal and the signed literal denote the same tree
        if let N::Lit(t) = &args[0] {
            if let Some(d) = t.strip_prefix("int:") {
                if let Ok(v) = d.parse::<i64>() {
                    return N::Lit(format!("int:{}", v.wrapping_neg()));
                }
            }
        }
        N::Call(func.to_string(), None, args)
    } else {
        N::Call(func.to_string(), None, args)
    }
}

impl N {
    /// Normal form of a parsed expression: ids dropped, logical chains flattened to operand lists.
    pub fn from_parsed(e: &IdedExpr) -> N {
        N::from_parsed_opt(e, true)
    }
    /// The parsed tree with its exact binary shape (ids dropped, `-literal` folded): what a fully
    /// parenthesised source must produce.
    pub fn from_parsed_exact(e: &IdedExpr) -> N {
        N::from_parsed_mode(e, true, false)
    }
    /// `flatten == false`: the tree exactly as built by the parser (ids dropped only).
    pub fn from_parsed_opt(e: &IdedExpr, flatten: bool) -> N {
        N::from_parsed_mode(e, flatten, true)
    }
    fn from_parsed_mode(e: &IdedExpr, flatten: bool, chains: bool) -> N {
        let rec = |x: &IdedExpr| N::from_parsed_mode(x, flatten, chains);
        match &e.expr {
            Expr::Unspecified => N::Unspecified,
            Expr::Ident(n) => N::Ident(n.clone()),
            Expr::Literal(v) => N::Lit(val_text(v)),
            Expr::Call(c) => {
                let args: Vec<N> = c.args.iter().map(|x| rec(x)).collect();
                match &c.target {
                    None if flatten => flatten_logic_opt(&c.func_name, args, chains),
                    None => N::Call(c.func_name.clone(), None, args),
                    Some(t) => N::Call(c.func_name.clone(), Some(Box::new(rec(t))), args),
                }
            }
            Expr::Select(s) => N::Select(Box::new(rec(&s.operand)), s.field.clone(), s.test),
            Expr::List(l) => N::List(l.elements.iter().map(|x| rec(x)).collect()),
            Expr::Map(m) => N::Map(
                m.entries
                    .iter()
                    .map(|en| match &en.expr {
                        EntryExpr::MapEntry(me) => (rec(&me.key), rec(&me.value)),
                        EntryExpr::StructField(sf) => (N::Ident(format!("<field {}>", sf.field)), rec(&sf.value)),
                    })
                    .collect(),
            ),
            Expr::Struct(s) => N::Struct(
                s.type_name.clone(),
                s.entries
                    .iter()
                    .map(|en| match &en.expr {
                        EntryExpr::StructField(sf) => (sf.field.clone(), rec(&sf.value)),
                        EntryExpr::MapEntry(me) => ("<map-entry>".to_string(), rec(&me.value)),
                    })
                    .collect(),
            ),
            Expr::Comprehension(c) => N::Compr {
                range: Box::new(rec(&c.iter_range)),
                var: c.iter_var.clone(),
                accu: c.accu_var.clone(),
                init: Box::new(rec(&c.accu_init)),
                cond: Box::new(rec(&c.loop_cond)),
                step: Box::new(rec(&c.loop_step)),
                result: Box::new(rec(&c.result)),
            },
        }
    }

    /// Expected normal form built directly from the generator tree.
    pub fn from_g(g: &G) -> N {
        N::from_g_opt(g, true)
    }
    /// The generator tree with its exact binary shape.
    pub fn from_g_exact(g: &G) -> N {
        N::from_g_opt(g, false)
    }
    fn from_g_opt(g: &G, chains: bool) -> N {
        let from_g = |x: &G| N::from_g_opt(x, chains);
        let flatten_logic = |f: &str, a: Vec<N>| flatten_logic_opt(f, a, chains);
        match g {
            G::Ident(n) => N::Ident(n.clone()),
            G::Int(i) => N::Lit(format!("int:{}", i)),
            G::Lit(_, norm) => N::Lit(norm.clone()),
            G::Cond(c, t, e) => N::Call("_?_:_".into(), None, vec![from_g(c), from_g(t), from_g(e)]),
            G::Bin(op, l, r) => flatten_logic(op_function(op), vec![from_g(l), from_g(r)]),
            G::Not(x) => N::Call("!_".into(), None, vec![from_g(x)]),
            G::Neg(x) => flatten_logic("-_", vec![from_g(x)]),
            G::Select(x, f) => N::Select(Box::new(from_g(x)), f.clone(), false),
            G::Index(x, i) => N::Call("_[_]".into(), None, vec![from_g(x), from_g(i)]),
            G::Method(x, m, args) => N::Call(m.clone(), Some(Box::new(from_g(x))), args.iter().map(|x| from_g(x)).collect()),
            G::Call(f, args) => N::Call(f.clone(), None, args.iter().map(|x| from_g(x)).collect()),
            G::List(es) => N::List(es.iter().map(|x| from_g(x)).collect()),
            G::Map(es) => N::Map(es.iter().map(|(k, v)| (from_g(k), from_g(v))).collect()),
            G::Struct(n, fs) => N::Struct(n.clone(), fs.iter().map(|(f, v)| (f.clone(), from_g(v))).collect()),
        }
    }

    /// number of occurrences of `needle` as a subtree
    pub fn count(&self, needle: &N) -> usize {
        let own = if self == needle { 1 } else { 0 };
        own + match self {
            N::Call(_, t, args) => t.as_ref().map(|t| t.count(needle)).unwrap_or(0) + args.iter().map(|a| a.count(needle)).sum::<usize>(),
            N::Select(x, _, _) => x.count(needle),
            N::List(es) => es.iter().map(|a| a.count(needle)).sum(),
            N::Map(es) => es.iter().map(|(k, v)| k.count(needle) + v.count(needle)).sum(),
            N::Struct(_, es) => es.iter().map(|(_, v)| v.count(needle)).sum(),
            N::Compr { range, init, cond, step, result, .. } => {
                range.count(needle) + init.count(needle) + cond.count(needle) + step.count(needle) + result.count(needle)
            }
            _ => 0,
        }
    }

    pub fn show(&self) -> String {
        match self {
            N::Ident(n) => n.clone(),
            N::Lit(t) => t.clone(),
            N::Call(f, None, args) => format!("{}({})", f, args.iter().map(|a| a.show()).collect::<Vec<_>>().join(",")),
            N::Call(f, Some(t), args) => format!("{}.{}({})", t.show(), f, args.iter().map(|a| a.show()).collect::<Vec<_>>().join(",")),
            N::Select(x, f, t) => format!("{}.{}{}", x.show(), f, if *t { "~test" } else { "" }),
            N::List(es) => format!("[{}]", es.iter().map(|a| a.show()).collect::<Vec<_>>().join(",")),
            N::Map(es) => format!("{{{}}}", es.iter().map(|(k, v)| format!("{}:{}", k.show(), v.show())).collect::<Vec<_>>().join(",")),
            N::Struct(n, es) => format!("{}{{{}}}", n, es.iter().map(|(k, v)| format!("{}:{}", k, v.show())).collect::<Vec<_>>().join(",")),
            N::Compr { range, var, step, .. } => format!("compr(range={}, var={}, step={})", range.show(), var, step.show()),
            N::Unspecified => "<unspecified>".into(),
        }
    }
}

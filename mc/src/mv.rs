//! Model values: plain owned data, no Arc, so a snapshot can never alias the subject.
use cel_interpreter::objects::{Key, Map};
use cel_interpreter::{ExecutionError, Value};
use serde_json::{json, Value as J};
use std::collections::HashMap;
use std::sync::Arc;

#[derive(Clone, Debug, PartialEq, Eq, Hash, PartialOrd, Ord)]
pub enum MK {
    Int(i64),
    Uint(u64),
    Bool(bool),
    Str(String),
}

#[derive(Clone, Debug, PartialEq, Eq, Hash, PartialOrd, Ord)]
pub enum MV {
    Null,
    Bool(bool),
    Int(i64),
    Uint(u64),
    /// f64 bit pattern (NaNs canonicalised)
    Float(u64),
    Str(String),
    Bytes(Vec<u8>),
    List(Vec<MV>),
    /// entries sorted by key
    Map(Vec<(MK, MV)>),
    /// (seconds, subsec nanos) as chrono stores them
    Duration(i64, i32),
    /// (utc seconds, nanos, offset seconds)
    Timestamp(i64, u32, i32),
    Function(String, Option<Box<MV>>),
}

pub fn fbits(f: f64) -> u64 {
    if f.is_nan() {
        0x7ff8_0000_0000_0000
    } else {
        f.to_bits()
    }
}

impl MV {
    pub fn f(v: f64) -> MV {
        MV::Float(fbits(v))
    }
    pub fn s(v: &str) -> MV {
        MV::Str(v.to_string())
    }
    pub fn from_value(v: &Value) -> MV {
        match v {
            Value::Null => MV::Null,
            Value::Bool(b) => MV::Bool(*b),
            Value::Int(i) => MV::Int(*i),
            Value::UInt(u) => MV::Uint(*u),
            Value::Float(f) => MV::Float(fbits(*f)),
            Value::String(s) => MV::Str(s.as_ref().clone()),
            Value::Bytes(b) => MV::Bytes(b.as_ref().clone()),
            Value::List(l) => MV::List(l.iter().map(MV::from_value).collect()),
            Value::Map(m) => {
                let mut es: Vec<(MK, MV)> = m
                    .map
                    .iter()
                    .map(|(k, v)| (MK::from_key(k), MV::from_value(v)))
                    .collect();
                es.sort();
                MV::Map(es)
            }
            Value::Duration(d) => MV::Duration(d.num_seconds(), d.subsec_nanos()),
            Value::Timestamp(t) => MV::Timestamp(
                t.timestamp(),
                t.timestamp_subsec_nanos(),
                t.offset().local_minus_utc(),
            ),
            Value::Function(n, t) => MV::Function(
                n.as_ref().clone(),
                t.as_ref().map(|b| Box::new(MV::from_value(b))),
            ),
        }
    }
    pub fn to_value(&self) -> Value {
        match self {
            MV::Null => Value::Null,
            MV::Bool(b) => Value::Bool(*b),
            MV::Int(i) => Value::Int(*i),
            MV::Uint(u) => Value::UInt(*u),
            MV::Float(b) => Value::Float(f64::from_bits(*b)),
            MV::Str(s) => Value::String(Arc::new(s.clone())),
            MV::Bytes(b) => Value::Bytes(Arc::new(b.clone())),
            MV::List(l) => Value::List(Arc::new(l.iter().map(|x| x.to_value()).collect())),
            MV::Map(es) => {
                let mut m = HashMap::new();
                for (k, v) in es {
                    m.insert(k.to_key(), v.to_value());
                }
                Value::Map(Map { map: Arc::new(m) })
            }
            MV::Duration(s, n) => {
                // accept both the floor representation and chrono's (seconds, signed sub-second) pair
                let total = *s as i128 * 1_000_000_000 + *n as i128;
                let secs = total.div_euclid(1_000_000_000) as i64;
                let nanos = total.rem_euclid(1_000_000_000) as u32;
                Value::Duration(chrono::Duration::new(secs, nanos).expect("duration in range"))
            }
            MV::Timestamp(s, n, off) => {
                let utc = chrono::DateTime::from_timestamp(*s, *n).expect("ts in range");
                let off = chrono::FixedOffset::east_opt(*off).expect("offset");
                Value::Timestamp(utc.with_timezone(&off))
            }
            MV::Function(n, t) => Value::Function(
                Arc::new(n.clone()),
                t.as_ref().map(|b| Box::new(b.to_value())),
            ),
        }
    }
    pub fn kind(&self) -> &'static str {
        match self {
            MV::Null => "null",
            MV::Bool(_) => "bool",
            MV::Int(_) => "int",
            MV::Uint(_) => "uint",
            MV::Float(_) => "double",
            MV::Str(_) => "string",
            MV::Bytes(_) => "bytes",
            MV::List(_) => "list",
            MV::Map(_) => "map",
            MV::Duration(..) => "duration",
            MV::Timestamp(..) => "timestamp",
            MV::Function(..) => "function",
        }
    }
    pub fn show(&self) -> String {
        match self {
            MV::Null => "null".into(),
            MV::Bool(b) => b.to_string(),
            MV::Int(i) => i.to_string(),
            MV::Uint(u) => format!("{}u", u),
            MV::Float(b) => format!("{:?}f", f64::from_bits(*b)),
            MV::Str(s) => format!("{:?}", s),
            MV::Bytes(b) => format!("b{:?}", b),
            MV::List(l) => format!("[{}]", l.iter().map(|x| x.show()).collect::<Vec<_>>().join(", ")),
            MV::Map(es) => format!(
                "{{{}}}",
                es.iter().map(|(k, v)| format!("{}: {}", k.show(), v.show())).collect::<Vec<_>>().join(", ")
            ),
            MV::Duration(s, n) => format!("dur({}s,{}ns)", s, n),
            MV::Timestamp(s, n, o) => format!("ts({}s,{}ns,{:+}s)", s, n, o),
            MV::Function(n, t) => format!("fn({},{})", n, t.as_ref().map(|t| t.show()).unwrap_or_default()),
        }
    }
    pub fn json(&self) -> J {
        json!(self.show())
    }
}

impl MK {
    pub fn from_key(k: &Key) -> MK {
        match k {
            Key::Int(i) => MK::Int(*i),
            Key::Uint(u) => MK::Uint(*u),
            Key::Bool(b) => MK::Bool(*b),
            Key::String(s) => MK::Str(s.as_ref().clone()),
        }
    }
    pub fn to_key(&self) -> Key {
        match self {
            MK::Int(i) => Key::Int(*i),
            MK::Uint(u) => Key::Uint(*u),
            MK::Bool(b) => Key::Bool(*b),
            MK::Str(s) => Key::String(Arc::new(s.clone())),
        }
    }
    pub fn to_mv(&self) -> MV {
        match self {
            MK::Int(i) => MV::Int(*i),
            MK::Uint(u) => MV::Uint(*u),
            MK::Bool(b) => MV::Bool(*b),
            MK::Str(s) => MV::Str(s.clone()),
        }
    }
    pub fn show(&self) -> String {
        self.to_mv().show()
    }
    /// numeric value if the key is an int/uint (for the twin rule)
    pub fn num(&self) -> Option<i128> {
        match self {
            MK::Int(i) => Some(*i as i128),
            MK::Uint(u) => Some(*u as i128),
            _ => None,
        }
    }
}

/// Error classes the oracles distinguish. `Other` is compatible with any expected error.
#[derive(Clone, Debug, PartialEq, Eq, Hash, PartialOrd, Ord)]
pub enum EC {
    Overflow,
    DivZero,
    NoSuchKey,
    Undeclared(String),
    /// conversion / function error raised by a named function
    Function(String),
    /// operand type errors, not-comparable, unsupported index/key, wrong arg types/count
    Type,
    Other,
}

pub fn classify_err(e: &ExecutionError) -> EC {
    match e {
        ExecutionError::IntegerOverflow(..) => EC::Overflow,
        ExecutionError::DivisionByZero(_) | ExecutionError::RemainderByZero(_) => EC::DivZero,
        ExecutionError::NoSuchKey(_) => EC::NoSuchKey,
        ExecutionError::UndeclaredReference(n) => EC::Undeclared(n.as_ref().clone()),
        ExecutionError::FunctionError { function, .. } => EC::Function(function.clone()),
        ExecutionError::InvalidArgumentCount { .. }
        | ExecutionError::UnsupportedTargetType { .. }
        | ExecutionError::NotSupportedAsMethod { .. }
        | ExecutionError::UnsupportedKeyType(_)
        | ExecutionError::UnexpectedType { .. }
        | ExecutionError::MissingArgumentOrTarget
        | ExecutionError::ValuesNotComparable(..)
        | ExecutionError::UnsupportedUnaryOperator(..)
        | ExecutionError::UnsupportedBinaryOperator(..)
        | ExecutionError::UnsupportedMapIndex(_)
        | ExecutionError::UnsupportedListIndex(_)
        | ExecutionError::UnsupportedIndex(..)
        | ExecutionError::UnsupportedFunctionCallIdentifierType(_)
        | ExecutionError::UnsupportedFieldsConstruction(_) => EC::Type,
        _ => EC::Other,
    }
}

impl EC {
    pub fn tag(&self) -> String {
        match self {
            EC::Overflow => "overflow".into(),
            EC::DivZero => "divzero".into(),
            EC::NoSuchKey => "nosuchkey".into(),
            EC::Undeclared(n) => format!("undeclared({})", n),
            EC::Function(f) => format!("fnerr({})", f),
            EC::Type => "type".into(),
            EC::Other => "other".into(),
        }
    }
    /// short tag without payload, for failure keys
    pub fn tag0(&self) -> &'static str {
        match self {
            EC::Overflow => "overflow",
            EC::DivZero => "divzero",
            EC::NoSuchKey => "nosuchkey",
            EC::Undeclared(_) => "undeclared",
            EC::Function(_) => "fnerr",
            EC::Type => "type",
            EC::Other => "other",
        }
    }
}

/// Outcome of running the subject on one case.
#[derive(Clone, Debug, PartialEq)]
pub enum Out {
    Val(MV),
    Err(EC),
    Panic(String),
    CompileErr(String),
}

impl Out {
    pub fn tag(&self) -> String {
        match self {
            Out::Val(v) => format!("val:{}", v.kind()),
            Out::Err(e) => format!("err:{}", e.tag0()),
            Out::Panic(p) => format!("panic:{}", crate::core::panic_site(p)),
            Out::CompileErr(_) => "compile-error".into(),
        }
    }
    pub fn show(&self) -> String {
        match self {
            Out::Val(v) => v.show(),
            Out::Err(e) => format!("Err({})", e.tag()),
            Out::Panic(p) => format!("PANIC({})", p),
            Out::CompileErr(e) => format!("COMPILE-ERROR({})", e),
        }
    }
}

pub fn out_of(r: Result<Result<Value, ExecutionError>, String>) -> Out {
    match r {
        Ok(Ok(v)) => Out::Val(MV::from_value(&v)),
        Ok(Err(e)) => Out::Err(classify_err(&e)),
        Err(p) => Out::Panic(p),
    }
}

//! Reference evaluator: own expression type `E`, printed fully parenthesised, evaluated
//! strictly left to right with short-circuit logic, checked i128 integer arithmetic, IEEE
//! doubles, plain-loop macro folds, error classes and an event log of host-function calls.
use crate::lit::{cel_lit, key_lit};
use crate::mv::{EC, MK, MV};
use crate::refsem::{model_eq, model_ord, OrdSpec};
use std::cmp::Ordering;
use std::collections::HashMap;

#[derive(Clone, Debug, PartialEq)]
pub enum E {
    Lit(MV),
    Var(String),
    Un(&'static str, Box<E>),
    Bin(&'static str, Box<E>, Box<E>),
    Cond(Box<E>, Box<E>, Box<E>),
    Index(Box<E>, Box<E>),
    Select(Box<E>, String),
    Has(Box<E>, String),
    /// name, receiver, arguments
    Call(String, Option<Box<E>>, Vec<E>),
    List(Vec<E>),
    Map(Vec<(E, E)>),
    /// macro name, range, iteration variable, arguments after the variable (1, or 2 for map/3)
    Macro(&'static str, Box<E>, String, Vec<E>),
}

pub fn b(e: E) -> Box<E> {
    Box::new(e)
}
pub fn lit_i(i: i64) -> E {
    E::Lit(MV::Int(i))
}
pub fn lit_s(s: &str) -> E {
    E::Lit(MV::s(s))
}
pub fn var(n: &str) -> E {
    E::Var(n.to_string())
}
pub fn call(n: &str, args: Vec<E>) -> E {
    E::Call(n.to_string(), None, args)
}
pub fn mcall(recv: E, n: &str, args: Vec<E>) -> E {
    E::Call(n.to_string(), Some(b(recv)), args)
}

impl E {
    /// CEL source, every compound sub-expression parenthesised.
    pub fn src(&self) -> String {
        let mut s = String::new();
        self.p(&mut s, true);
        s
    }
    fn p(&self, o: &mut String, top: bool) {
        let leaf = matches!(self, E::Lit(_) | E::Var(_) | E::List(_) | E::Map(_) | E::Has(..)) || matches!(self, E::Call(_, None, _));
        let wrap = !leaf && !top;
        if wrap {
            o.push('(');
        }
        match self {
            E::Lit(v) => {
                let t = cel_lit(v).expect("literal-expressible value");
                // negative numbers are wrapped so that `a - -1` / `-1.f` never glue
                if t.starts_with('-') {
                    o.push('(');
                    o.push_str(&t);
                    o.push(')');
                } else {
                    o.push_str(&t);
                }
            }
            E::Var(n) => o.push_str(n),
            E::Un(op, x) => {
                o.push_str(op);
                x.p(o, false);
            }
            E::Bin(op, l, r) => {
                l.p(o, false);
                o.push(' ');
                o.push_str(op);
                o.push(' ');
                r.p(o, false);
            }
            E::Cond(c, t, e) => {
                c.p(o, false);
                o.push_str(" ? ");
                t.p(o, false);
                o.push_str(" : ");
                e.p(o, false);
            }
            E::Index(x, i) => {
                x.p(o, false);
                o.push('[');
                i.p(o, true);
                o.push(']');
            }
            E::Select(x, f) => {
                x.p(o, false);
                o.push('.');
                o.push_str(f);
            }
            E::Has(x, f) => {
                o.push_str("has(");
                x.p(o, false);
                o.push('.');
                o.push_str(f);
                o.push(')');
            }
            E::Call(n, recv, args) => {
                if let Some(r) = recv {
                    r.p(o, false);
                    o.push('.');
                }
                o.push_str(n);
                o.push('(');
                for (k, a) in args.iter().enumerate() {
                    if k > 0 {
                        o.push_str(", ");
                    }
                    a.p(o, true);
                }
                o.push(')');
            }
            E::List(es) => {
                o.push('[');
                for (k, a) in es.iter().enumerate() {
                    if k > 0 {
                        o.push_str(", ");
                    }
                    a.p(o, true);
                }
                o.push(']');
            }
            E::Map(es) => {
                o.push('{');
                for (k, (a, v)) in es.iter().enumerate() {
                    if k > 0 {
                        o.push_str(", ");
                    }
                    a.p(o, true);
                    o.push_str(": ");
                    v.p(o, true);
                }
                o.push('}');
            }
            E::Macro(m, range, v, args) => {
                range.p(o, false);
                o.push('.');
                o.push_str(m);
                o.push('(');
                o.push_str(v);
                for a in args {
                    o.push_str(", ");
                    a.p(o, true);
                }
                o.push(')');
            }
        }
        if wrap {
            o.push(')');
        }
    }
    pub fn size(&self) -> usize {
        1 + match self {
            E::Lit(_) | E::Var(_) => 0,
            E::Un(_, x) | E::Select(x, _) | E::Has(x, _) => x.size(),
            E::Bin(_, l, r) | E::Index(l, r) => l.size() + r.size(),
            E::Cond(a, b, c) => a.size() + b.size() + c.size(),
            E::Call(_, r, args) => r.as_ref().map(|r| r.size()).unwrap_or(0) + args.iter().map(|a| a.size()).sum::<usize>(),
            E::List(es) => es.iter().map(|a| a.size()).sum(),
            E::Map(es) => es.iter().map(|(a, b)| a.size() + b.size()).sum(),
            E::Macro(_, r, _, args) => r.size() + args.iter().map(|a| a.size()).sum::<usize>(),
        }
    }
}

#[derive(Clone, Debug, PartialEq)]
pub enum Stop {
    Err(EC),
    /// behaviour the statements leave open: the case produces no verdict
    Unspec(&'static str),
}

pub type R = Result<MV, Stop>;

fn terr<T>() -> Result<T, Stop> {
    Err(Stop::Err(EC::Type))
}

#[derive(Clone, Debug, PartialEq)]
pub enum Ev {
    /// plain host function invoked: name, arguments as seen
    Call(String, Vec<MV>),
    Enter(i64),
    Exit(i64),
}

/// Behaviour of a host function in the model (the subject side registers the matching closure).
#[derive(Clone, Debug)]
pub enum Host {
    /// logs Call(name,[args]) and returns the constant
    Const(MV),
    /// logs and fails with FunctionError(name)
    Fail,
    /// logs and returns its (single) argument
    Ident,
    /// `t(id, e)`: lazy wrapper: Enter(id), evaluate e, Exit(id)
    Wrap,
    /// scripted predicate over an int argument: table value -> T/F/E (missing -> false)
    Script(HashMap<i64, char>),
    /// positional typed parameters (kinds by position): each argument is evaluated and
    /// type-checked in turn, a mismatch or a missing argument is an error before the next
    /// argument is touched and before the function is invoked; returns the first argument
    Typed(Vec<&'static str>),
}

pub struct Env {
    pub frames: Vec<HashMap<String, MV>>,
    pub hosts: HashMap<String, Host>,
    pub log: Vec<Ev>,
    pub steps: u64,
}

impl Env {
    pub fn new() -> Env {
        Env { frames: vec![HashMap::new()], hosts: HashMap::new(), log: vec![], steps: 0 }
    }
    pub fn set(&mut self, n: &str, v: MV) {
        self.frames.last_mut().unwrap().insert(n.to_string(), v);
    }
    fn get(&self, n: &str) -> Option<&MV> {
        for f in self.frames.iter().rev() {
            if let Some(v) = f.get(n) {
                return Some(v);
            }
        }
        None
    }
}

pub const BUILTINS: [&str; 24] = [
    "contains", "size", "max", "min", "startsWith", "endsWith", "string", "bytes", "double", "int", "uint", "matches", "duration", "timestamp",
    "getFullYear", "getMonth", "getDayOfYear", "getDayOfMonth", "getDate", "getDayOfWeek", "getHours", "getMinutes", "getSeconds", "getMilliseconds",
];

fn as_bool(v: &MV) -> Result<bool, Stop> {
    match v {
        MV::Bool(b) => Ok(*b),
        // non-bool operands of logic operators are outside the fragment
        _ => Err(Stop::Unspec("non-bool operand of a logical operator")),
    }
}

pub fn arith(op: &str, l: &MV, r: &MV) -> R {
    let int_res = |v: Option<i128>, lo: i128, hi: i128| -> Result<i128, Stop> {
        match v {
            Some(x) if x >= lo && x <= hi => Ok(x),
            _ => Err(Stop::Err(EC::Overflow)),
        }
    };
    match (l, r) {
        (MV::Int(a), MV::Int(c)) => {
            let (a, c) = (*a as i128, *c as i128);
            let (lo, hi) = (i64::MIN as i128, i64::MAX as i128);
            let v = match op {
                "+" => a.checked_add(c),
                "-" => a.checked_sub(c),
                "*" => a.checked_mul(c),
                "/" | "%" => {
                    if c == 0 {
                        return Err(Stop::Err(EC::DivZero));
                    }
                    if op == "%" && a == lo && c == -1 {
                        return Err(Stop::Err(EC::Overflow));
                    }
                    Some(if op == "/" { a / c } else { a % c })
                }
                _ => return terr(),
            };
            Ok(MV::Int(int_res(v, lo, hi)? as i64))
        }
        (MV::Uint(a), MV::Uint(c)) => {
            let (a, c) = (*a as i128, *c as i128);
            let v = match op {
                "+" => a.checked_add(c),
                "-" => a.checked_sub(c),
                "*" => a.checked_mul(c),
                "/" | "%" => {
                    if c == 0 {
                        return Err(Stop::Err(EC::DivZero));
                    }
                    Some(if op == "/" { a / c } else { a % c })
                }
                _ => return terr(),
            };
            Ok(MV::Uint(int_res(v, 0, u64::MAX as i128)? as u64))
        }
        (MV::Float(a), MV::Float(c)) => {
            let (a, c) = (f64::from_bits(*a), f64::from_bits(*c));
            Ok(MV::f(match op {
                "+" => a + c,
                "-" => a - c,
                "*" => a * c,
                "/" => a / c,
                _ => return terr(),
            }))
        }
        (MV::Str(a), MV::Str(c)) if op == "+" => Ok(MV::Str(format!("{}{}", a, c))),
        (MV::List(a), MV::List(c)) if op == "+" => {
            let mut v = a.clone();
            v.extend(c.iter().cloned());
            Ok(MV::List(v))
        }
        (MV::Bytes(_), MV::Bytes(_)) if op == "+" => Err(Stop::Unspec("bytes concatenation")),
        (MV::Duration(..) | MV::Timestamp(..), _) | (_, MV::Duration(..) | MV::Timestamp(..)) => Err(Stop::Unspec("time arithmetic")),
        _ => terr(),
    }
}

pub fn map_get<'a>(es: &'a [(MK, MV)], k: &MK) -> Option<&'a MV> {
    if let Some((_, v)) = es.iter().find(|(k2, _)| k2 == k) {
        return Some(v);
    }
    // numerically equal int and uint keys are the same key
    if let Some(n) = k.num() {
        if let Some((_, v)) = es.iter().find(|(k2, _)| k2 != k && k2.num() == Some(n)) {
            return Some(v);
        }
    }
    None
}

pub fn to_key(v: &MV) -> Option<MK> {
    match v {
        MV::Int(i) => Some(MK::Int(*i)),
        MV::Uint(u) => Some(MK::Uint(*u)),
        MV::Bool(b) => Some(MK::Bool(*b)),
        MV::Str(s) => Some(MK::Str(s.clone())),
        _ => None,
    }
}

fn is_ascii_str(s: &str) -> bool {
    s.is_ascii()
}

pub fn eval(e: &E, env: &mut Env) -> R {
    env.steps += 1;
    match e {
        E::Lit(v) => Ok(v.clone()),
        E::Var(n) => match env.get(n) {
            Some(v) => Ok(v.clone()),
            None => Err(Stop::Err(EC::Undeclared(n.clone()))),
        },
        E::Un(op, x) => {
            let v = eval(x, env)?;
            match (*op, &v) {
                ("!", MV::Bool(b)) => Ok(MV::Bool(!b)),
                ("!", _) => Err(Stop::Unspec("non-bool operand of !")),
                ("-", MV::Int(i)) => i.checked_neg().map(MV::Int).ok_or(Stop::Err(EC::Overflow)),
                ("-", MV::Float(f)) => Ok(MV::f(-f64::from_bits(*f))),
                _ => terr(),
            }
        }
        E::Bin(op, l, r) => match *op {
            "&&" => {
                let a = eval(l, env)?;
                if !as_bool(&a)? {
                    return Ok(MV::Bool(false));
                }
                let c = eval(r, env)?;
                Ok(MV::Bool(as_bool(&c)?))
            }
            "||" => {
                let a = eval(l, env)?;
                if as_bool(&a)? {
                    return Ok(MV::Bool(true));
                }
                let c = eval(r, env)?;
                Ok(MV::Bool(as_bool(&c)?))
            }
            "==" | "!=" => {
                let a = eval(l, env)?;
                let c = eval(r, env)?;
                if crate::refsem::has_twin_keys(&a) || crate::refsem::has_twin_keys(&c) {
                    return Err(Stop::Unspec("twin keys"));
                }
                let q = model_eq(&a, &c);
                Ok(MV::Bool(if *op == "==" { q } else { !q }))
            }
            "<" | "<=" | ">" | ">=" => {
                let a = eval(l, env)?;
                let c = eval(r, env)?;
                match model_ord(&a, &c) {
                    OrdSpec::Must(o) => Ok(MV::Bool(match *op {
                        "<" => o == Ordering::Less,
                        "<=" => o != Ordering::Greater,
                        ">" => o == Ordering::Greater,
                        _ => o != Ordering::Less,
                    })),
                    OrdSpec::MustErr => terr(),
                    OrdSpec::Unspecified => Err(Stop::Unspec("ordering of this kind")),
                }
            }
            "in" => {
                let a = eval(l, env)?;
                let c = eval(r, env)?;
                match &c {
                    MV::List(xs) => Ok(MV::Bool(xs.iter().any(|x| model_eq(x, &a)))),
                    MV::Map(es) => match to_key(&a) {
                        Some(k) => Ok(MV::Bool(map_get(es, &k).is_some())),
                        None => Ok(MV::Bool(false)),
                    },
                    MV::Str(_) if matches!(a, MV::Str(_)) => Err(Stop::Unspec("substring in")),
                    _ => terr(),
                }
            }
            _ => {
                let a = eval(l, env)?;
                let c = eval(r, env)?;
                arith(op, &a, &c)
            }
        },
        E::Cond(c, t, f) => {
            let cv = eval(c, env)?;
            if as_bool(&cv)? {
                eval(t, env)
            } else {
                eval(f, env)
            }
        }
        E::Index(x, i) => {
            let xv = eval(x, env)?;
            let iv = eval(i, env)?;
            match (&xv, &iv) {
                (MV::List(xs), MV::Int(k)) => Ok(if *k >= 0 && (*k as u64) < xs.len() as u64 { xs[*k as usize].clone() } else { MV::Null }),
                (MV::List(_), MV::Uint(_)) => Err(Stop::Unspec("uint list index")),
                (MV::Map(es), _) => match to_key(&iv) {
                    Some(k) => Ok(map_get(es, &k).cloned().unwrap_or(MV::Null)),
                    None => terr(),
                },
                (MV::Str(_), MV::Int(_)) => Err(Stop::Unspec("string index")),
                _ => terr(),
            }
        }
        E::Select(x, f) => {
            let xv = eval(x, env)?;
            let fn_named = BUILTINS.contains(&f.as_str()) || env.hosts.contains_key(f);
            // an entry that is present wins over a function of the same name; only the absent
            // case (a method value) is left open
            match &xv {
                MV::Map(es) => match es.iter().find(|(k, _)| *k == MK::Str(f.clone())) {
                    Some((_, v)) => Ok(v.clone()),
                    None if fn_named => Err(Stop::Unspec("absent field named like a function")),
                    None => Err(Stop::Err(EC::NoSuchKey)),
                },
                _ if fn_named => Err(Stop::Unspec("field named like a function on a non-map")),
                _ => Err(Stop::Err(EC::NoSuchKey)),
            }
        }
        E::Has(x, f) => {
            let xv = eval(x, env)?;
            match &xv {
                MV::Map(es) => Ok(MV::Bool(es.iter().any(|(k, _)| match k {
                    MK::Str(s) => s == f,
                    MK::Bool(bv) => bv.to_string() == *f,
                    _ => false,
                }))),
                _ => Ok(MV::Bool(false)),
            }
        }
        E::List(es) => {
            let mut v = vec![];
            for x in es {
                v.push(eval(x, env)?);
            }
            Ok(MV::List(v))
        }
        E::Map(es) => {
            let mut out: Vec<(MK, MV)> = vec![];
            for (k, v) in es {
                let kv = eval(k, env)?;
                let key = match to_key(&kv) {
                    Some(k) => k,
                    None => return terr(),
                };
                let vv = eval(v, env)?;
                if out.iter().any(|(k2, _)| *k2 == key) {
                    return Err(Stop::Unspec("duplicate map key"));
                }
                out.push((key, vv));
            }
            out.sort();
            Ok(MV::Map(out))
        }
        E::Call(name, recv, args) => eval_call(name, recv.as_deref(), args, env),
        E::Macro(m, range, v, args) => eval_macro(m, range, v, args, env),
    }
}

fn eval_macro(m: &str, range: &E, v: &str, args: &[E], env: &mut Env) -> R {
    let rv = eval(range, env)?;
    let items: Vec<MV> = match &rv {
        MV::List(xs) => xs.clone(),
        // map iteration order is unspecified; single-key maps are deterministic
        MV::Map(es) if es.len() <= 1 => es.iter().map(|(k, _)| k.to_mv()).collect(),
        MV::Map(_) => return Err(Stop::Unspec("iteration order of a map")),
        _ => return Err(Stop::Unspec("macro over a non-collection")),
    };
    env.frames.push(HashMap::new());
    let r = (|| -> R {
        match m {
            "all" => {
                for it in &items {
                    env.set(v, it.clone());
                    let bv = eval(&args[0], env)?;
                    if !as_bool(&bv)? {
                        return Ok(MV::Bool(false));
                    }
                }
                Ok(MV::Bool(true))
            }
            "exists" => {
                for it in &items {
                    env.set(v, it.clone());
                    let bv = eval(&args[0], env)?;
                    if as_bool(&bv)? {
                        return Ok(MV::Bool(true));
                    }
                }
                Ok(MV::Bool(false))
            }
            "exists_one" | "existsOne" => {
                let mut n = 0;
                for it in &items {
                    env.set(v, it.clone());
                    let bv = eval(&args[0], env)?;
                    if as_bool(&bv)? {
                        n += 1;
                    }
                }
                Ok(MV::Bool(n == 1))
            }
            "map" => {
                let mut out = vec![];
                for it in &items {
                    env.set(v, it.clone());
                    if args.len() == 2 {
                        let bv = eval(&args[0], env)?;
                        if !as_bool(&bv)? {
                            continue;
                        }
                        out.push(eval(&args[1], env)?);
                    } else {
                        out.push(eval(&args[0], env)?);
                    }
                }
                Ok(MV::List(out))
            }
            "filter" => {
                let mut out = vec![];
                for it in &items {
                    env.set(v, it.clone());
                    let bv = eval(&args[0], env)?;
                    if as_bool(&bv)? {
                        out.push(it.clone());
                    }
                }
                Ok(MV::List(out))
            }
            _ => Err(Stop::Unspec("unknown macro")),
        }
    })();
    env.frames.pop();
    r
}

fn conv_err(name: &str) -> Stop {
    Stop::Err(EC::Function(name.to_string()))
}

fn eval_call(name: &str, recv: Option<&E>, args: &[E], env: &mut Env) -> R {
    // host functions first: a registration under a built-in's name replaces it
    if let Some(h) = env.hosts.get(name).cloned() {
        // the receiver is evaluated first, then arguments in order
        let mut vals = vec![];
        if let Some(r) = recv {
            vals.push(eval(r, env)?);
        }
        match h {
            Host::Wrap => {
                let id = match args.first() {
                    Some(E::Lit(MV::Int(i))) => *i,
                    _ => return Err(Stop::Unspec("wrap without literal id")),
                };
                env.log.push(Ev::Enter(id));
                let r = eval(&args[1], env);
                env.log.push(Ev::Exit(id));
                return r;
            }
            _ => {}
        }
        if let Host::Typed(kinds) = &h {
            let mut vals = vec![];
            // values of the arguments evaluated so far, in source order: each argument is evaluated once
            let mut evald: Vec<MV> = vec![];
            let mut k = 0usize;
            for kind in kinds.iter() {
                if *kind == "args" {
                    // the `Arguments` extractor: all arguments; those already evaluated are not evaluated again
                    for a in args.iter().skip(evald.len()) {
                        let v = eval(a, env)?;
                        evald.push(v);
                    }
                    vals.push(MV::List(evald.clone()));
                    continue;
                }
                let v = if k < evald.len() {
                    evald[k].clone()
                } else {
                    let a = match args.get(k) {
                        Some(a) => a,
                        None => return terr(),
                    };
                    let v = eval(a, env)?;
                    evald.push(v.clone());
                    v
                };
                k += 1;
                if *kind != "any" && v.kind() != *kind {
                    return terr();
                }
                vals.push(v);
            }
            env.log.push(Ev::Call(name.to_string(), vals.clone()));
            return vals.first().cloned().ok_or(Stop::Err(EC::Type));
        }
        for a in args {
            vals.push(eval(a, env)?);
        }
        env.log.push(Ev::Call(name.to_string(), vals.clone()));
        return match h {
            Host::Const(v) => Ok(v),
            Host::Fail => Err(Stop::Err(EC::Function(name.to_string()))),
            Host::Ident => vals.first().cloned().ok_or(Stop::Err(EC::Type)),
            Host::Script(t) => match vals.first() {
                Some(MV::Int(i)) => match t.get(i).copied().unwrap_or('F') {
                    'T' => Ok(MV::Bool(true)),
                    'F' => Ok(MV::Bool(false)),
                    _ => Err(Stop::Err(EC::Function(name.to_string()))),
                },
                _ => terr(),
            },
            Host::Wrap | Host::Typed(_) => unreachable!(),
        };
    }
    if !BUILTINS.contains(&name) {
        // receiver is not evaluated when the function does not exist
        return Err(Stop::Err(EC::Undeclared(name.to_string())));
    }
    // built-ins: receiver (if any) then arguments, left to right
    let mut vals: Vec<MV> = vec![];
    if let Some(r) = recv {
        vals.push(eval(r, env)?);
    }
    for a in args {
        vals.push(eval(a, env)?);
    }
    let n = vals.len();
    match name {
        "size" if n == 1 => match &vals[0] {
            MV::List(x) => Ok(MV::Int(x.len() as i64)),
            MV::Map(x) => Ok(MV::Int(x.len() as i64)),
            MV::Str(s) if is_ascii_str(s) => Ok(MV::Int(s.len() as i64)),
            MV::Str(_) => Err(Stop::Unspec("size of a non-ASCII string")),
            MV::Bytes(x) => Ok(MV::Int(x.len() as i64)),
            _ => Err(conv_err("size")),
        },
        "contains" if n == 2 => match (&vals[0], &vals[1]) {
            (MV::List(xs), a) => Ok(MV::Bool(xs.iter().any(|x| model_eq(x, a)))),
            (MV::Map(es), a) => match to_key(a) {
                Some(k) => Ok(MV::Bool(map_get(es, &k).is_some())),
                None => terr(),
            },
            (MV::Str(s), MV::Str(t)) => Ok(MV::Bool(s.contains(t.as_str()))),
            _ => Err(Stop::Unspec("contains on other kinds")),
        },
        "startsWith" if n == 2 => match (&vals[0], &vals[1]) {
            (MV::Str(s), MV::Str(t)) => Ok(MV::Bool(s.starts_with(t.as_str()))),
            _ => terr(),
        },
        "endsWith" if n == 2 => match (&vals[0], &vals[1]) {
            (MV::Str(s), MV::Str(t)) => Ok(MV::Bool(s.ends_with(t.as_str()))),
            _ => terr(),
        },
        "matches" if n == 2 => match (&vals[0], &vals[1]) {
            (MV::Str(s), MV::Str(re)) => {
                // only literal patterns with optional ^ / $ anchors are in the fragment
                let (a, rest) = match re.strip_prefix('^') {
                    Some(r) => (true, r),
                    None => (false, re.as_str()),
                };
                let (z, body) = match rest.strip_suffix('$') {
                    Some(r) => (true, r),
                    None => (false, rest),
                };
                if !body.chars().all(|c| c.is_ascii_alphanumeric() || c == ' ') {
                    return Err(Stop::Unspec("regex metacharacters"));
                }
                Ok(MV::Bool(match (a, z) {
                    (true, true) => s == body,
                    (true, false) => s.starts_with(body),
                    (false, true) => s.ends_with(body),
                    (false, false) => s.contains(body),
                }))
            }
            _ => terr(),
        },
        "string" if n == 1 => match &vals[0] {
            MV::Str(s) => Ok(MV::Str(s.clone())),
            MV::Int(i) => Ok(MV::Str(i.to_string())),
            MV::Uint(u) => Ok(MV::Str(u.to_string())),
            MV::Bytes(x) => match String::from_utf8(x.clone()) {
                Ok(s) => Ok(MV::Str(s)),
                Err(_) => Err(Stop::Unspec("string of invalid UTF-8")),
            },
            MV::Float(_) => Err(Stop::Unspec("text of string(double)")),
            MV::Duration(..) | MV::Timestamp(..) => Err(Stop::Unspec("time text")),
            _ => Err(Stop::Unspec("string() of this kind")),
        },
        "bytes" if n == 1 && recv.is_none() => match &vals[0] {
            MV::Str(s) => Ok(MV::Bytes(s.as_bytes().to_vec())),
            _ => terr(),
        },
        "int" if n == 1 => match &vals[0] {
            MV::Int(i) => Ok(MV::Int(*i)),
            MV::Uint(u) => i64::try_from(*u).map(MV::Int).map_err(|_| conv_err("int")),
            MV::Float(f) => match crate::nums::trunc_i128(f64::from_bits(*f)) {
                Some(t) if t >= i64::MIN as i128 && t <= i64::MAX as i128 => Ok(MV::Int(t as i64)),
                _ => Err(conv_err("int")),
            },
            MV::Str(_) => Err(Stop::Unspec("int(string)")),
            _ => Err(conv_err("int")),
        },
        "uint" if n == 1 => match &vals[0] {
            MV::Uint(u) => Ok(MV::Uint(*u)),
            MV::Int(i) => u64::try_from(*i).map(MV::Uint).map_err(|_| conv_err("uint")),
            MV::Float(f) => {
                let x = f64::from_bits(*f);
                if x < 0.0 && x > -1.0 {
                    return Err(Stop::Unspec("uint of a double in (-1,0)"));
                }
                match crate::nums::trunc_i128(x) {
                    Some(t) if t >= 0 && t <= u64::MAX as i128 => Ok(MV::Uint(t as u64)),
                    _ => Err(conv_err("uint")),
                }
            }
            MV::Str(_) => Err(Stop::Unspec("uint(string)")),
            _ => Err(conv_err("uint")),
        },
        "double" if n == 1 => match &vals[0] {
            MV::Float(f) => Ok(MV::Float(*f)),
            MV::Int(i) => Ok(MV::f(*i as f64)),
            MV::Uint(u) => Ok(MV::f(*u as f64)),
            MV::Str(_) => Err(Stop::Unspec("double(string)")),
            _ => Err(conv_err("double")),
        },
        "min" | "max" if n >= 1 => {
            let items: Vec<MV> = if n == 1 {
                match &vals[0] {
                    MV::List(xs) => xs.clone(),
                    other => return Ok(other.clone()),
                }
            } else {
                vals.clone()
            };
            if items.is_empty() {
                return Err(Stop::Unspec("min/max of an empty list"));
            }
            let mut best = items[0].clone();
            for x in &items[1..] {
                if x.kind() != best.kind() {
                    return Err(Stop::Unspec("min/max over mixed kinds"));
                }
                match model_ord(x, &best) {
                    // which of two equal-but-distinguishable values (0.0 / -0.0) is returned is not prescribed
                    OrdSpec::Must(Ordering::Equal) if *x != best => return Err(Stop::Unspec("min/max tie between distinguishable values")),
                    OrdSpec::Must(o) => {
                        if (name == "min" && o == Ordering::Less) || (name == "max" && o == Ordering::Greater) {
                            best = x.clone();
                        }
                    }
                    OrdSpec::MustErr => return terr(),
                    OrdSpec::Unspecified => return Err(Stop::Unspec("min/max of this kind")),
                }
            }
            Ok(best)
        }
        _ => Err(Stop::Unspec("built-in call shape outside the fragment")),
    }
}

pub fn key_src(k: &MK) -> String {
    key_lit(k)
}

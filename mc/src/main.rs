mod core;
mod e2;
mod e3;
mod gast;
mod hosts;
mod lit;
mod mv;
mod nums;
mod refparse;
mod refsem;
mod reval;
mod props;
mod subj;
mod tspace;

use crate::core::{Run, Tier};

fn usage() -> ! {
    eprintln!("usage: mc run <Cxx> --tier quick|thorough --shard k/n\n       mc replay <Cxx> <tier> <sub> <idx>");
    std::process::exit(2);
}

fn main() {
    let args: Vec<String> = std::env::args().collect();
    if args.len() < 3 {
        usage();
    }
    core::install_silent_panic_hook();
    let mem: u64 = std::env::var("MC_MEM_LIMIT").ok().and_then(|s| s.parse().ok()).unwrap_or(6 << 30);
    core::install_crash_handlers(mem);
    match args[1].as_str() {
        "run" => {
            let prop = args[2].clone();
            let mut tier = Tier::Quick;
            let (mut k, mut n) = (0u64, 1u64);
            let mut i = 3;
            while i < args.len() {
                match args[i].as_str() {
                    "--tier" => {
                        tier = if args[i + 1] == "thorough" { Tier::Thorough } else { Tier::Quick };
                        i += 2;
                    }
                    "--shard" => {
                        let p: Vec<&str> = args[i + 1].split('/').collect();
                        k = p[0].parse().unwrap();
                        n = p[1].parse().unwrap();
                        i += 2;
                    }
                    _ => usage(),
                }
            }
            let mut run = Run::new(tier, k, n, None);
            // props run on a big-stack thread so that deep (but legal) inputs do not overflow ours
            let rep = run_on_big_stack(move || {
                props::dispatch(&prop, &mut run);
                run.finish()
            });
            println!("{}", serde_json::json!({"report": rep.to_json()}));
        }
        "replay" => {
            if args.len() < 6 {
                usage();
            }
            let prop = args[2].clone();
            let tier = if args[3] == "thorough" { Tier::Thorough } else { Tier::Quick };
            let sub = args[4].clone();
            let idx: u64 = args[5].parse().unwrap();
            let mut run = Run::new(tier, 0, 1, Some((sub, idx)));
            let rep = run_on_big_stack(move || {
                props::dispatch(&prop, &mut run);
                run.finish()
            });
            println!("{}", serde_json::to_string_pretty(&serde_json::json!({"failures": rep.failures, "hist": rep.hist, "samples": rep.samples})).unwrap());
            std::process::exit(if rep.failures.is_empty() { 0 } else { 1 });
        }
        "probe" => {
            // dev aid: compile + execute each argument against the default context
            for src in &args[2..] {
                let ctx = cel_interpreter::Context::default();
                let c = core::guard(|| cel_interpreter::Program::compile(src));
                match c {
                    Err(p) => println!("{:?} => COMPILE PANIC {}", src, p),
                    Ok(Err(e)) => println!("{:?} => COMPILE ERR {}", src, e.to_string().replace('\n', " / ")),
                    Ok(Ok(p)) => println!("{:?} => {}", src, subj::exec(&p, &ctx).show()),
                }
            }
        }
        _ => usage(),
    }
}

fn run_on_big_stack<T: Send + 'static>(f: impl FnOnce() -> T + Send + 'static) -> T {
    // The subject is run on the thread's own stack: 8 MiB, the default main-thread size a
    // host application would have. (Not larger: stack exhaustion on a legal input is a finding.)
    match std::thread::Builder::new().stack_size(8 << 20).spawn(f).unwrap().join() {
        Ok(v) => v,
        Err(_) => {
            // a panic of the harness itself (subject panics are caught per case): machinery error
            eprintln!("mc: harness panic: {}", core::guard(|| ()).err().unwrap_or_default());
            eprintln!("mc: re-run with MC_DEBUG=1 for the panic message");
            std::process::exit(3);
        }
    }
}

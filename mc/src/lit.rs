//! Rendering model values as CEL source literals (only spellings whose meaning
//! does not depend on the literal-escape defects tracked under C12).
use crate::mv::{MK, MV};

pub fn str_lit(s: &str) -> String {
    let mut o = String::from("\"");
    for c in s.chars() {
        match c {
            '"' => o.push_str("\\\""),
            '\\' => o.push_str("\\\\"),
            '\n' => o.push_str("\\n"),
            '\r' => o.push_str("\\r"),
            '\t' => o.push_str("\\t"),
            c if (c as u32) < 0x20 || c as u32 == 0x7f => o.push_str(&format!("\\x{:02x}", c as u32)),
            c => o.push(c),
        }
    }
    o.push('"');
    o
}

pub fn f64_lit(f: f64) -> Option<String> {
    if !f.is_finite() {
        return None;
    }
    let s = format!("{:?}", f);
    // Rust prints e.g. "1e300", "1.5", "5e-324", "-0.0": all valid NUM_FLOAT spellings
    Some(s)
}

pub fn bytes_lit(b: &[u8]) -> Option<String> {
    let mut o = String::from("b\"");
    for &c in b {
        if c >= 0x20 && c < 0x7f && c != b'"' && c != b'\\' {
            o.push(c as char);
        } else {
            o.push_str(&format!("\\x{:02x}", c));
        }
    }
    o.push('"');
    Some(o)
}

pub fn key_lit(k: &MK) -> String {
    cel_lit(&k.to_mv()).unwrap()
}

pub fn cel_lit(v: &MV) -> Option<String> {
    Some(match v {
        MV::Null => "null".into(),
        MV::Bool(b) => b.to_string(),
        MV::Int(i) => i.to_string(),
        MV::Uint(u) => format!("{}u", u),
        MV::Float(b) => f64_lit(f64::from_bits(*b))?,
        MV::Str(s) => str_lit(s),
        MV::Bytes(b) => bytes_lit(b)?,
        MV::List(l) => {
            let mut parts = vec![];
            for x in l {
                parts.push(cel_lit(x)?);
            }
            format!("[{}]", parts.join(", "))
        }
        MV::Map(es) => {
            let mut parts = vec![];
            for (k, x) in es {
                parts.push(format!("{}: {}", key_lit(k), cel_lit(x)?));
            }
            format!("{{{}}}", parts.join(", "))
        }
        MV::Duration(..) | MV::Timestamp(..) | MV::Function(..) => return None,
    })
}

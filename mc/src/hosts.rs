//! Subject-side counterparts of the model's host functions (`reval::Host`): closures
//! registered through the public `Context::add_function`, logging into a shared vector.
use crate::mv::MV;
use crate::reval::{Ev, Host};
use cel_interpreter::extractors::Arguments;
use cel_interpreter::{Context, ExecutionError, FunctionContext, Value};
use cel_parser::Expression;
use std::sync::{Arc, Mutex};

pub type Log = Arc<Mutex<Vec<Ev>>>;

pub fn new_log() -> Log {
    Arc::new(Mutex::new(vec![]))
}

fn seen(ftx: &FunctionContext, args: &Arc<Vec<Value>>) -> Vec<MV> {
    let mut v = vec![];
    if let Some(t) = &ftx.this {
        v.push(MV::from_value(t));
    }
    v.extend(args.iter().map(MV::from_value));
    v
}

pub fn register(ctx: &mut Context, name: &str, h: &Host, log: &Log) {
    let log = log.clone();
    let nm = name.to_string();
    match h.clone() {
        Host::Const(v) => {
            let val = v.to_value();
            ctx.add_function(name, move |ftx: &FunctionContext, Arguments(args): Arguments| -> Result<Value, ExecutionError> {
                log.lock().unwrap().push(Ev::Call(nm.clone(), seen(ftx, &args)));
                Ok(val.clone())
            });
        }
        Host::Fail => {
            ctx.add_function(name, move |ftx: &FunctionContext, Arguments(args): Arguments| -> Result<Value, ExecutionError> {
                log.lock().unwrap().push(Ev::Call(nm.clone(), seen(ftx, &args)));
                Err(ftx.error("failing host function"))
            });
        }
        Host::Ident => {
            ctx.add_function(name, move |ftx: &FunctionContext, Arguments(args): Arguments| -> Result<Value, ExecutionError> {
                let s = seen(ftx, &args);
                log.lock().unwrap().push(Ev::Call(nm.clone(), s));
                match (&ftx.this, args.first()) {
                    (Some(t), _) => Ok(t.clone()),
                    (None, Some(a)) => Ok(a.clone()),
                    _ => Err(ftx.error("no argument")),
                }
            });
        }
        Host::Wrap => {
            ctx.add_function(name, move |ftx: &FunctionContext, id: i64, e: Expression| -> Result<Value, ExecutionError> {
                log.lock().unwrap().push(Ev::Enter(id));
                let r = ftx.ptx.resolve(&e);
                log.lock().unwrap().push(Ev::Exit(id));
                r
            });
        }
        Host::Typed(kinds) => {
            // registered by the property modules themselves (the closure signature is the point)
            let _ = kinds;
            panic!("Host::Typed must be registered with a concrete closure");
        }
        Host::Script(t) => {
            ctx.add_function(name, move |ftx: &FunctionContext, Arguments(args): Arguments| -> Result<Value, ExecutionError> {
                log.lock().unwrap().push(Ev::Call(nm.clone(), seen(ftx, &args)));
                let first = match (&ftx.this, args.first()) {
                    (Some(t), _) => Some(t.clone()),
                    (None, Some(a)) => Some(a.clone()),
                    _ => None,
                };
                match first {
                    Some(Value::Int(i)) => match t.get(&i).copied().unwrap_or('F') {
                        'T' => Ok(Value::Bool(true)),
                        'F' => Ok(Value::Bool(false)),
                        _ => Err(ftx.error("scripted failure")),
                    },
                    _ => Err(ExecutionError::UnexpectedType { got: "other".into(), want: "int".into() }),
                }
            });
        }
    }
}

/// Builds a real context mirroring a model environment (root frame variables + host functions).
pub fn context_for(env: &crate::reval::Env, log: &Log) -> Context<'static> {
    let mut ctx = Context::default();
    for (n, v) in env.frames[0].iter() {
        ctx.add_variable_from_value(n.clone(), v.to_value());
    }
    for (n, h) in env.hosts.iter() {
        if !matches!(h, Host::Typed(_)) {
            register(&mut ctx, n, h, log);
        }
    }
    ctx
}

//! Ranked enumeration of all *typed* expression trees with a given number of operators.
use crate::reval::E;

pub struct Prod {
    pub res: usize,
    pub kids: Vec<usize>,
    pub name: &'static str,
    pub build: Box<dyn Fn(Vec<E>) -> E + Send + Sync>,
}

pub struct TypedSpace {
    pub ntypes: usize,
    pub leaves: Vec<Vec<E>>,
    pub prods: Vec<Prod>,
    /// counts[ty][n]
    pub counts: Vec<Vec<u128>>,
}

fn compositions(total: usize, parts: usize) -> Vec<Vec<usize>> {
    if parts == 0 {
        return if total == 0 { vec![vec![]] } else { vec![] };
    }
    if parts == 1 {
        return vec![vec![total]];
    }
    let mut out = vec![];
    for first in 0..=total {
        for mut rest in compositions(total - first, parts - 1) {
            let mut v = vec![first];
            v.append(&mut rest);
            out.push(v);
        }
    }
    out
}

impl TypedSpace {
    pub fn new(leaves: Vec<Vec<E>>, prods: Vec<Prod>, max_ops: usize) -> TypedSpace {
        let ntypes = leaves.len();
        let mut counts: Vec<Vec<u128>> = leaves.iter().map(|l| vec![l.len() as u128]).collect();
        for n in 1..=max_ops {
            let mut row = vec![0u128; ntypes];
            for p in &prods {
                for comp in compositions(n - 1, p.kids.len()) {
                    let mut b: u128 = 1;
                    for (k, part) in comp.iter().enumerate() {
                        b *= counts[p.kids[k]][*part];
                    }
                    row[p.res] += b;
                }
            }
            for (t, c) in row.into_iter().enumerate() {
                counts[t].push(c);
            }
        }
        TypedSpace { ntypes, leaves, prods, counts }
    }
    pub fn count(&self, ty: usize, n: usize) -> u128 {
        self.counts[ty][n]
    }
    pub fn unrank(&self, ty: usize, n: usize, mut i: u128) -> E {
        if n == 0 {
            return self.leaves[ty][i as usize].clone();
        }
        for p in self.prods.iter().filter(|p| p.res == ty) {
            for comp in compositions(n - 1, p.kids.len()) {
                let mut b: u128 = 1;
                for (k, part) in comp.iter().enumerate() {
                    b *= self.counts[p.kids[k]][*part];
                }
                if i < b {
                    let mut kids = vec![];
                    for (k, part) in comp.iter().enumerate() {
                        let c = self.counts[p.kids[k]][*part];
                        kids.push(self.unrank(p.kids[k], *part, i % c));
                        i /= c;
                    }
                    return (p.build)(kids);
                }
                i -= b;
            }
        }
        unreachable!("rank out of range")
    }
}

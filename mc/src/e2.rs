//! Engine E2 — explicit-state exploration of event histories. A state is identified with a
//! history that reaches it; the `step` callback rebuilds fresh real objects, replays the
//! history on them, checks the invariants on the real objects and returns a canonical key of
//! the reached state (or None to stop expanding below a violating state). Breadth-first,
//! simplest-first; canonical keys deduplicate states whose futures coincide.
use crate::core::Run;
use std::collections::{HashSet, VecDeque};
use std::hash::Hash;

#[derive(Default, Debug, Clone)]
pub struct Stats {
    pub histories: u64,
    pub transitions: u64,
    pub distinct_states: u64,
    pub max_depth: usize,
    pub pruned_duplicates: u64,
}

/// `prefix_depth`: histories are partitioned among worker shards by their first `prefix_depth`
/// events (each shard deduplicates within its own subtrees).
pub fn explore<Ev: Clone, K: Hash + Eq>(
    run: &mut Run,
    max_depth: usize,
    prefix_depth: usize,
    enabled: &dyn Fn(&[Ev]) -> Vec<Ev>,
    step: &mut dyn FnMut(&mut Run, &[Ev]) -> Option<K>,
) -> Stats {
    let mut st = Stats::default();
    let mut seen: HashSet<K> = HashSet::new();
    let mut frontier: VecDeque<Vec<Ev>> = VecDeque::new();
    // enumerate the prefixes (every worker walks them; only the owner expands below)
    let mut prefixes: Vec<Vec<Ev>> = vec![vec![]];
    let mut level: Vec<Vec<Ev>> = vec![vec![]];
    for _ in 0..prefix_depth.min(max_depth) {
        let mut next = vec![];
        for h in &level {
            for ev in enabled(h) {
                let mut n = h.clone();
                n.push(ev);
                next.push(n);
            }
        }
        prefixes.extend(next.iter().cloned());
        level = next;
    }
    for h in prefixes {
        let is_leaf_prefix = h.len() == prefix_depth.min(max_depth);
        // every prefix history is a case; the deepest prefixes are the roots of the shards' subtrees
        if !run.take() {
            continue;
        }
        st.histories += 1;
        st.transitions += h.len() as u64;
        st.max_depth = st.max_depth.max(h.len());
        if let Some(k) = step(run, &h) {
            if seen.insert(k) {
                st.distinct_states += 1;
                if is_leaf_prefix {
                    frontier.push_back(h);
                }
            } else {
                st.pruned_duplicates += 1;
                if is_leaf_prefix && h.len() < prefix_depth {
                    frontier.push_back(h);
                }
            }
        }
    }
    while let Some(h) = frontier.pop_front() {
        if h.len() >= max_depth {
            continue;
        }
        for ev in enabled(&h) {
            let mut n = h.clone();
            n.push(ev);
            // histories below the prefix level belong to this worker: count them as cases
            run.rep.states += 1;
            st.histories += 1;
            st.transitions += n.len() as u64;
            st.max_depth = st.max_depth.max(n.len());
            crate::core::heartbeat();
            if let Some(k) = step(run, &n) {
                if seen.insert(k) {
                    st.distinct_states += 1;
                    frontier.push_back(n);
                } else {
                    st.pruned_duplicates += 1;
                }
            }
        }
    }
    st
}

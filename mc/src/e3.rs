//! Engine E3 — CHESS-style schedule explorer. Real OS threads run real code; only the thread
//! holding the baton runs. A scheduling point is every `Value::resolve` entry (verif-hooks
//! observer) plus thread start and finish. Exploration is a preemption-bounded DFS over
//! schedule prefixes: run the default schedule (keep running the current thread, else lowest
//! id), then branch at every point within the budget. Every execution runs to completion.
use std::sync::{Condvar, Mutex};

#[derive(Clone, Debug)]
pub struct Pt {
    pub enabled: usize,
    pub chosen: usize,
    pub running_enabled: bool,
}

struct St {
    current: Option<usize>,
    finished: Vec<bool>,
    prefix: Vec<usize>,
    trace: Vec<Pt>,
    /// thread ids in the order they were given the baton (for replay files)
    order: Vec<usize>,
    diverged: bool,
}

pub struct Sched {
    st: Mutex<St>,
    cv: Condvar,
}

impl Sched {
    pub fn new(nthreads: usize, prefix: Vec<usize>) -> Sched {
        Sched { st: Mutex::new(St { current: None, finished: vec![false; nthreads], prefix, trace: vec![], order: vec![], diverged: false }), cv: Condvar::new() }
    }

    fn choose(st: &mut St, me: Option<usize>) -> Option<usize> {
        let mut order: Vec<usize> = vec![];
        let running_enabled = matches!(me, Some(m) if !st.finished[m]);
        if let Some(m) = me {
            if !st.finished[m] {
                order.push(m);
            }
        }
        for t in 0..st.finished.len() {
            if !st.finished[t] && Some(t) != me {
                order.push(t);
            }
        }
        if order.is_empty() {
            return None;
        }
        if order.len() == 1 {
            // no choice: not a branching point
            return Some(order[0]);
        }
        let i = st.trace.len();
        let choice = if i < st.prefix.len() { st.prefix[i] } else { 0 };
        let choice = if choice >= order.len() {
            // a prefix that does not fit the execution: replay divergence (machinery error)
            st.diverged = true;
            0
        } else {
            choice
        };
        st.trace.push(Pt { enabled: order.len(), chosen: choice, running_enabled });
        Some(order[choice])
    }

    /// Scheduling point of thread `me`.
    pub fn point(&self, me: usize) {
        let mut st = self.st.lock().unwrap();
        let next = Sched::choose(&mut st, Some(me)).unwrap();
        if next != me {
            st.current = Some(next);
            st.order.push(next);
            self.cv.notify_all();
            while st.current != Some(me) {
                st = self.cv.wait(st).unwrap();
            }
        }
    }

    pub fn wait_turn(&self, me: usize) {
        let mut st = self.st.lock().unwrap();
        while st.current != Some(me) {
            st = self.cv.wait(st).unwrap();
        }
    }

    pub fn finish(&self, me: usize) {
        let mut st = self.st.lock().unwrap();
        st.finished[me] = true;
        match Sched::choose(&mut st, None) {
            Some(next) => {
                st.current = Some(next);
                st.order.push(next);
            }
            None => st.current = None,
        }
        self.cv.notify_all();
    }

    pub fn start(&self) {
        let mut st = self.st.lock().unwrap();
        if let Some(next) = Sched::choose(&mut st, None) {
            st.current = Some(next);
            st.order.push(next);
        }
        self.cv.notify_all();
    }

    pub fn result(&self) -> (Vec<Pt>, Vec<usize>, bool) {
        let st = self.st.lock().unwrap();
        (st.trace.clone(), st.order.clone(), st.diverged)
    }
}

#[derive(Default, Debug, Clone)]
pub struct Stats {
    pub schedules: u64,
    pub points: u64,
    pub max_points: usize,
    pub max_preemptions_used: usize,
}

/// Preemption-bounded exploration. `run_one(prefix)` executes the body under the given schedule
/// prefix and returns the trace of branching points; `check` is called once per execution with
/// the prefix that produced it. Returns statistics.
pub fn explore(bound: usize, run_one: &mut dyn FnMut(&[usize]) -> Vec<Pt>, stats: &mut Stats) {
    fn rec(prefix: Vec<usize>, bound: usize, run_one: &mut dyn FnMut(&[usize]) -> Vec<Pt>, stats: &mut Stats) {
        let trace = run_one(&prefix);
        stats.schedules += 1;
        stats.points += trace.len() as u64;
        stats.max_points = stats.max_points.max(trace.len());
        // preemptions before each point
        let mut pre = vec![0usize; trace.len() + 1];
        for (i, p) in trace.iter().enumerate() {
            pre[i + 1] = pre[i] + if p.running_enabled && p.chosen != 0 { 1 } else { 0 };
        }
        stats.max_preemptions_used = stats.max_preemptions_used.max(pre[trace.len()]);
        for i in prefix.len()..trace.len() {
            let p = &trace[i];
            let cost = pre[i] + if p.running_enabled { 1 } else { 0 };
            if cost > bound {
                continue;
            }
            for alt in 1..p.enabled {
                let mut np: Vec<usize> = trace[..i].iter().map(|q| q.chosen).collect();
                np.push(alt);
                rec(np, bound, run_one, stats);
            }
        }
    }
    rec(vec![], bound, run_one, stats);
}

//! Boundary sets for the numeric sweeps.
pub fn i64_boundary(thorough: bool) -> Vec<i64> {
    let mut v: Vec<i128> = vec![];
    let base: [i128; 30] = [
        0, 1, -1, 2, -2, 3, -3, 7, -7, 10, -10, 255, 256, 1 << 31, -(1 << 31), (1 << 31) - 1,
        1 << 32, -(1 << 32), (1 << 32) + 1, 3037000499, 3037000500, -3037000499, -3037000500,
        1 << 53, (1 << 53) + 1, -(1 << 53) - 1, 1 << 62, -(1 << 62), (1 << 62) - 1, 4611686018427387905,
    ];
    v.extend_from_slice(&base);
    let min = i64::MIN as i128;
    let max = i64::MAX as i128;
    for d in 0..5 {
        v.push(min + d);
        v.push(max - d);
    }
    v.extend_from_slice(&[min / 2, min / 2 - 1, min / 2 + 1, max / 2, max / 2 + 1, max / 3, min / 3, 6442450941, -6442450941,
        2147483649, -2147483649, 4294967295, -4294967295, 1000000007, -1000000007, 9223372036854775, 4611686018427387904 - 2, 60, -60, 1000000000, -1000000000]);
    if thorough {
        for k in 0..63u32 {
            let p = 1i128 << k;
            for d in [-1i128, 0, 1] {
                v.push(p + d);
                v.push(-(p + d));
            }
        }
        for k in 1..19u32 {
            let p = 10i128.pow(k);
            v.push(p);
            v.push(-p);
            v.push(p - 1);
        }
    }
    let mut out: Vec<i64> = vec![];
    for x in v {
        if x >= min && x <= max {
            let x = x as i64;
            if !out.contains(&x) {
                out.push(x);
            }
        }
    }
    out
}

pub fn u64_boundary(thorough: bool) -> Vec<u64> {
    let mut v: Vec<u128> = vec![
        0, 1, 2, 3, 7, 10, 255, 256, 1 << 31, (1 << 31) - 1, 1 << 32, (1 << 32) - 1, (1 << 32) + 1,
        4294967296 * 2, 3037000499, 3037000500, 4294967295, 6074000999, 1 << 53, (1 << 53) + 1,
        1 << 62, 1 << 63, (1 << 63) - 1, (1 << 63) + 1, 60, 1000000000, 1000000007,
    ];
    let max = u64::MAX as u128;
    for d in 0..6 {
        v.push(max - d);
    }
    v.extend_from_slice(&[max / 2, max / 2 + 1, max / 3, max / 3 + 1, max / 5, 6148914691236517205, 12297829382473034410,
        9223372036854775807 - 1, 4611686018427387903, 4611686018427387905, 2147483649, 65535, 65536, 65537, 16777216, 100, 1000, 999,
        18446744073709551557, 9223372036854775783, 4294967291, 4294967311, 1099511627776, 281474976710656]);
    if thorough {
        for k in 0..64u32 {
            let p = 1u128 << k;
            v.push(p);
            v.push(p + 1);
            if p > 0 {
                v.push(p - 1);
            }
        }
        for k in 1..20u32 {
            let p = 10u128.pow(k);
            v.push(p);
            v.push(p - 1);
        }
    }
    let mut out: Vec<u64> = vec![];
    for x in v {
        if x <= max {
            let x = x as u64;
            if !out.contains(&x) {
                out.push(x);
            }
        }
    }
    out
}

/// Exact comparison of an f64 with an i128 (no rounding): returns ordering of f vs i, None for NaN.
pub fn cmp_f64_i128(f: f64, i: i128) -> Option<std::cmp::Ordering> {
    use std::cmp::Ordering::*;
    if f.is_nan() {
        return None;
    }
    if f == f64::INFINITY {
        return Some(Greater);
    }
    if f == f64::NEG_INFINITY {
        return Some(Less);
    }
    // |f| < 2^1024; i within i128. Compare integer parts first.
    let t = f.trunc();
    // t as i128 saturates for |t| >= 2^127
    if t >= 1.7e38 {
        return Some(Greater);
    }
    if t <= -1.7e38 {
        return Some(Less);
    }
    let ti = t as i128; // exact: t is an integer with |t| < 2^127
    if ti != i {
        return Some(ti.cmp(&i));
    }
    let frac = f - t; // exact for finite doubles
    if frac > 0.0 {
        Some(Greater)
    } else if frac < 0.0 {
        Some(Less)
    } else {
        Some(Equal)
    }
}

/// Exact integer value of trunc(f) when finite
pub fn trunc_i128(f: f64) -> Option<i128> {
    if !f.is_finite() {
        return None;
    }
    let t = f.trunc();
    if t.abs() >= 1.7e38 {
        return None;
    }
    Some(t as i128)
}

pub fn next_up(f: f64) -> f64 {
    if f.is_nan() || f == f64::INFINITY {
        return f;
    }
    if f == 0.0 {
        return f64::from_bits(1);
    }
    let b = f.to_bits();
    if f > 0.0 {
        f64::from_bits(b + 1)
    } else {
        f64::from_bits(b - 1)
    }
}
pub fn next_down(f: f64) -> f64 {
    -next_up(-f)
}

//! Supplementary, non-deciding pass for C05: the thread bodies of the schedule explorer run
//! FREE (no baton) under Miri's data-race / UB detector. The baton of engine E3 creates
//! happens-before edges that would blind a race detector, so this pass runs without it.
use cel_interpreter::{Context, Program, Value};
use std::sync::Arc;

fn main() {
    let mut root = Context::default();
    root.add_variable_from_value("xs", Value::List(Arc::new(vec![Value::Int(1), Value::Int(2)])));
    root.add_variable_from_value("s", Value::String(Arc::new("ab".to_string())));
    root.add_variable_from_value(
        "n",
        Value::List(Arc::new(vec![Value::List(Arc::new(vec![Value::Int(1)])), Value::List(Arc::new(vec![Value::Int(2)]))])),
    );
    let srcs = ["xs + [9, me]", "[me, xs[0]]", "s + 'c' + s", "xs.map(v, [v, me])", "n.map(l, l + [me, 0])", "xs.filter(v, v > me)"];
    let progs: Vec<Program> = srcs.iter().map(|s| Program::compile(s).unwrap()).collect();
    let solo: Vec<Vec<Value>> = (0..2)
        .map(|t| {
            let mut inner = root.new_inner_scope();
            inner.add_variable_from_value("me", Value::Int(t + 1));
            progs.iter().map(|p| p.execute(&inner).unwrap()).collect()
        })
        .collect();
    std::thread::scope(|s| {
        for t in 0..2i64 {
            let (root, progs, solo) = (&root, &progs, &solo);
            s.spawn(move || {
                let mut inner = root.new_inner_scope();
                inner.add_variable_from_value("me", Value::Int(t + 1));
                for round in 0..2 {
                    for (i, p) in progs.iter().enumerate() {
                        let v = p.execute(&inner).unwrap();
                        assert_eq!(v, solo[t as usize][i], "round {round} program {i}");
                    }
                }
            });
        }
    });
    println!("miri-pass: 2 free-running threads x {} programs x 2 rounds: no data race / UB reported", srcs.len());
}

#!/usr/bin/env python3
"""Confirms a seeded change in its scratch worktree, stores it under /verif/seeded/<name>/ and runs checks against it.
   usage: seedtest.py <name> <worktree> <property> [other properties to run too...]"""
import json, os, shutil, subprocess, sys, re
name, wt, prop = sys.argv[1], sys.argv[2], sys.argv[3]
others = sys.argv[4:]
seed = os.path.join(wt, "seed")
dest = f"/verif/seeded/{name}"
def sh(cmd, cwd=None, timeout=3600):
    r = subprocess.run(cmd, shell=True, cwd=cwd, stdout=subprocess.PIPE, stderr=subprocess.STDOUT, text=True, timeout=timeout)
    return r.returncode, r.stdout
def tests(cwd):
    rc, out = sh("cargo test --workspace --no-fail-fast --offline 2>&1", cwd)
    # the demo may need the optional json feature: run it once more with the feature on
    if os.path.exists(os.path.join(cwd, "interpreter/tests/seed_demo.rs")):
        rc2, out2 = sh("cargo test -p cel-interpreter --features json --offline --test seed_demo 2>&1", cwd)
        out += out2
    passed = sum(int(m) for m in re.findall(r"test result: \w+\. (\d+) passed", out))
    failed = sum(int(m) for m in re.findall(r"test result: \w+\. \d+ passed; (\d+) failed", out))
    demo_failed = "seed_demo" in out and bool(re.search(r"test .*\.\.\. FAILED", out))
    return passed, failed, out
PHASE = os.environ.get("SEEDTEST_PHASE", "all")  # all | confirm (worktree only, parallelisable) | check (/repo only, serial)
if PHASE in ("all", "confirm"):
    res = {}
    demo = [f for f in os.listdir(seed) if f.endswith(".rs")][0]
    # 1. unchanged tree + demo: everything passes
    sh("git checkout -- . && git clean -fdq interpreter/tests", wt)
    os.makedirs(os.path.join(wt, "interpreter/tests"), exist_ok=True)
    shutil.copy(os.path.join(seed, demo), os.path.join(wt, "interpreter/tests/seed_demo.rs"))
    p, f, out = tests(wt)
    res["unpatched"] = {"passed": p, "failed": f}
    # 2. patched tree + demo: the 67 pass, the demo fails
    rc, o = sh(f"git apply {seed}/patch.diff", wt)
    if rc != 0:
        print("patch does not apply:", o); sys.exit(2)
    p2, f2, out2 = tests(wt)
    res["patched"] = {"passed": p2, "failed": f2}
    os.remove(os.path.join(wt, "interpreter/tests/seed_demo.rs"))
    p3, f3, out3 = tests(wt)
    res["patched_without_demo"] = {"passed": p3, "failed": f3}
    sh("git checkout -- .", wt)
    ok = f == 0 and f2 > 0 and f3 == 0 and p3 >= 67
    res["confirmed"] = ok
    print(json.dumps(res))
    if not ok:
        print("NOT CONFIRMED"); print(out2[-1500:]); sys.exit(1)
    os.makedirs(dest, exist_ok=True)
    shutil.copy(os.path.join(seed, "patch.diff"), dest)
    shutil.copy(os.path.join(seed, demo), os.path.join(dest, "seed_demo.rs"))
    meta = {}
    try: meta = json.load(open(os.path.join(seed, "meta.json")))
    except Exception as e: meta = {"note": f"agent meta.json unreadable: {e}"}
    meta["property"] = prop
    meta["base_commit"] = subprocess.run("git -C /repo rev-parse --short HEAD", shell=True, stdout=subprocess.PIPE, text=True).stdout.strip()
    meta["confirmation"] = res
    meta["confirmation_cmds"] = ["cargo test --workspace --no-fail-fast --offline (unpatched + demo: all pass)", "git apply patch.diff; same command (67 pass, demo fails)", "patched without demo: 67 pass"]
    json.dump(meta, open(os.path.join(dest, "meta.json"), "w"), indent=1)
    if PHASE == "confirm":
        sys.exit(0)
meta = json.load(open(os.path.join(dest, "meta.json")))
# 3. run the checks against it in /repo
rc, o = sh(f"git -C /repo apply {dest}/patch.diff")
if rc != 0:
    print("patch does not apply to /repo:", o); sys.exit(2)
caught = {}
try:
    for pr in [prop] + others:
        rc, o = sh(f"./check {pr} quick", "/verif")
        viol = [l for l in o.splitlines() if l.startswith("VIOLATION")]
        keys = [l.strip() for l in o.splitlines() if "violation key:" in l]
        caught[pr] = {"exit": rc, "violations": len(viol), "keys": keys[:6]}
        print(pr, "exit", rc, "violations", len(viol), keys[:3])
finally:
    sh("git -C /repo checkout -- .")
meta["checks_run_quick"] = caught
json.dump(meta, open(os.path.join(dest, "meta.json"), "w"), indent=1)
# evidence files were rewritten by the mutant runs: restore the committed ones
sh("git -C /verif checkout -- evidence")

//! Static part of C05: the types a host shares between threads must be Send + Sync.
//! This crate only has to compile; an E0277 here is reported as a C05 violation.
use cel_interpreter::{Context, ExecutionError, Program, Value};

fn assert_send_sync<T: Send + Sync>() {}

pub fn assertions() {
    assert_send_sync::<Program>();
    assert_send_sync::<Context<'static>>();
    assert_send_sync::<Value>();
    assert_send_sync::<ExecutionError>();
}

#!/usr/bin/env python3
"""dev helper: addmeta.py <Cxx> reads a JSON object on stdin, stores it in checks.json, drops the id from na.json, regenerates the manifest"""
import json, sys, os, subprocess
R = os.path.dirname(os.path.abspath(__file__))
pid = sys.argv[1]
m = json.load(sys.stdin)
m.setdefault("engine", "E1")
m.setdefault("design_ref", f"DESIGN.md §5 {pid}")
m.setdefault("abort_is_violation", False)
meta = json.load(open(f"{R}/checks.json"))
meta[pid] = m
json.dump(meta, open(f"{R}/checks.json", "w"), indent=1)
na = [x for x in json.load(open(f"{R}/na.json")) if x["property_id"] != pid]
json.dump(na, open(f"{R}/na.json", "w"), indent=1)
subprocess.run([f"{R}/gen_manifest.py"])

#!/usr/bin/env python3
"""Validates MANIFEST.json and all evidence files against the given schemas (uses the tooling venv's jsonschema)."""
import json, sys, glob
import jsonschema
ok = True
try:
    jsonschema.validate(json.load(open('/verif/MANIFEST.json')), json.load(open('/root/.vp/MANIFEST.schema.json')))
    print("MANIFEST ok")
except Exception as e:
    ok = False; print("MANIFEST INVALID", str(e)[:500])
sch = json.load(open('/root/.vp/EVIDENCE.schema.json'))
for f in sorted(glob.glob('/verif/evidence/*.json')):
    try:
        jsonschema.validate(json.load(open(f)), sch); print("ok", f)
    except Exception as e:
        ok = False; print("INVALID", f, str(e)[:500])
sys.exit(0 if ok else 1)

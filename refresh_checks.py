#!/usr/bin/env python3
"""Refresh checks.json: append the families added after the seeded rounds to each rule text
(idempotent) and, with --bounds, rewrite the measured sizes from evidence/<id>.json (run after a
sweep of the given tier: refresh_checks.py --bounds quick|thorough)."""
import json, sys, subprocess
ADDED = {
 "C01": "unknown characters include six that Unicode but not CEL counts as white space (U+00A0, U+000B, U+0085, U+2028, U+3000, U+FEFF); ~80k literal extremes (every \\u escape, boundary \\U, numeric literals of every length); visitor-level (semantic) errors in every whitespace layout and embedding; every failing/valid fragment in every argument slot of 35 macro/optional/wrapper templates, two levels deep (semantic-nesting). Also: TAB in the character alphabet and a layout-chars family (tab, CR, LF, 2/3/4-byte characters, #, quote); integer literals at 2^k-1, 2^k, 2^k+1 for 13 k (decimal/hex, signs, suffixes, embeddings); multi-line triple-quoted literals with every rejected escape.",
 "C02": "the 289 generated host signatures of C20 as callees (panic-only oracle); host-supplied timestamps at chrono's limits in extreme offsets; dense small values: every ordered pair of all strings / byte strings of length <= 3 over {a,b}, small lists, maps and numbers as literals under 24 binary built-in / operator templates. Also: numeric texts (digit runs of 26 lengths up to 1100 x 8 shapes x signs x suffixes) through every text-consuming built-in.",
 "C03": "error-precedence family: in 13 n-ary constructs two operands fail with different error classes in every pair of positions (the leftmost needed one wins). Also: aliasing family (11 values incl. [NaN], [[NaN]], {'a': NaN} x 16 templates reading one variable several times).",
 "C04": "the fully parenthesised rendering is compared with the exact binary tree (chain balancing is tolerated only for the minimal rendering); chains of 2..4 operands with 1/5/35/71 AST nodes in every combination; nested prefix forms. Also: every tree with <= 2 operators under every assignment of two names to its leaves (repeated leaves).",
 "C05": "the history alphabet has 36 programs (macros failing mid-loop, macro variables named like context variables, regex and conversion built-ins, equal-shaped temporaries asked the same question, built-in names selected as members without a call); results are also compared with results computed before any history ran and with freshly compiled programs; the thread programs include a 9-deep macro nest. It also holds same-shaped programs with different literals, the first failing; and membership in equal-shaped temporary lists of eight strings.",
 "C06": "15 contexts (macro bodies of every form, nested macro, list element, map value, call argument, negated, compared, conditional branch); 6 error kinds incl. a call of an undeclared function; a second tree family with the literals true/false as two more leaf kinds (<= 2 operators quick, <= 3 thorough).",
 "C07": "host functions named like operators (`_h`), map/list literals with several entries, inner-macro templates, list-literal indexing. Also: multi-field paths has2 / has2-absent / has3 / select2. Session 3: sub-space mixed-arguments (host signatures with positional parameters in front of / behind the Arguments extractor: 7 templates x every leaf assignment x every hole a leaf or an inner template) - on the pinned tree this reproduces a genuine double evaluation recorded as 21 known keys.",
 "C08": "nested unary minus forms (-(-a), -(-(-a)), 0 - (-a), ...) over the whole int set. Session 3: every ordered pair of a contiguous range (int -33..33 / uint 0..66 quick, -400..400 / 0..800 thorough), that range against the whole boundary set in both orders, and three-operand programs (25 operator pairs x {left-grouped, right-grouped, unparenthesised} over 14/11 (24/19) values per type): every intermediate result is range-checked, so widening, reassociation or folding is a wrong verdict.",
 "C09": "",
 "C10": "every list-valued macro chained as the range of every macro (same / different variable name); list-literal ranges of observable or variable-reading element expressions (value + visit log, outer name re-read after the macro); constant bodies over lists and maps (variable and literal ranges). Also: twin-elements (lists <= 3 over 1, 1u, 1.0, 2, 0.0, -0.0, [3], [3.0] x type-sensitive bodies); observable bodies that ignore the iteration variable (constant-argument logging calls, an erroring body).",
 "C11": "(A) value pool {1, 1u, 2, null} (equal-but-distinguishable twins; a name bound to null is bound), up to three nested child scopes; (B) two program profiles (ints; twins whose outer bindings equal the iterated elements in another numeric type), names read before and after nested macros, shadow chains of 2..4 map levels with every assignment of the three names to the levels and a null element at each level in turn. Also: chained scopes ({map, filter} as the range of every macro form x both iteration variables x one further name read in each body).",
 "C12": "U+000D in the character alphabet; every pair and triple of 13 escape atoms (7 invalid); every string of length 3..5 over {backslash, ', \", a} in the 8 raw styles.",
 "C13": "bit-pattern double sets in thorough; first values beyond each range. Session 3: contiguous ranges (ints -300..300 / uints 0..600 / every multiple of 1/8 and 1/10 in the range; thorough -2100..2100) in every literal spelling and conversion, decimal texts of a contiguous range and of the boundary sets as string arguments.",
 "C14": "keys spelled like built-ins (`size`), keys supplied as variables; entry values of every falsy kind next to truthy ones; aliasing family: one variable (incl. [NaN], {'a': NaN}) read on both sides of in / contains / ==. Also: concat-ownership (every mix of context variable / literal / temporary operands).",
 "C15": "every unit x 1..45 fraction digits x 5 digit patterns x 4 surroundings against an independent long-multiplication reference (beyond 18 digits the value of the first 18 digits is accepted too). Strings outside the strict grammar but inside Go's (leading +, .5s, 1.s, 0, micro-sign units) may be rejected, but if accepted must denote Go's value.",
 "C16": "accessors also on host-supplied timestamp values; `d + t` and `d + (t - d)` checked for exact instant and preserved offset; chrono's limit instants in extreme offsets.",
 "C17": "leaves whose Serialize impl asks is_human_readable() (std::net::IpAddr); maps written through serialize_entry; a repeated key keeps the last value as in serde_json. The generated struct / struct-variant impls call skip_field (a skipped field leaves no trace).",
 "C18": "bytes 0..=255 and every padding length.",
 "C19": "153 sibling-literal logic templates; leading-dot names; a name `w` used both as variable and as function, contexts define it as variable / function / both / neither (128 contexts). The second variable is spelled `_v2` (leading underscore).",
 "C20": "289 generated signatures incl. This<T> behind other parameters, two This<T>, optional receivers, closures reporting ftx.this; a map receiver keyed by every function name; host functions returning their receiver (literal / nested / variable receivers). Every signature is also registered under the operator-like name `_hf` with an unbound identifier argument; failing-receiver family (6 failing receivers x 21 receiver-style calls: the call fails, nothing is invoked).",
}
MARK = " Added after the seeded rounds (DESIGN §7): "
c = json.load(open('/verif/checks.json'))
for k, add in ADDED.items():
    r = c[k]['rule']
    if MARK in r:
        r = r[:r.index(MARK)]
    if add:
        r = r + MARK + add
    c[k]['rule'] = r
if '--bounds' in sys.argv:
    tier = sys.argv[sys.argv.index('--bounds') + 1]
    for k in c:
        try:
            e = json.load(open(f'/verif/evidence/{k}.json'))
        except Exception:
            continue
        if e.get('tier') != tier:
            continue
        cov = e.get('coverage', {})
        subs = cov.get('subspaces') or {}
        top = sorted(subs.items(), key=lambda kv: -kv[1])[:6]
        txt = f"measured: {cov.get('states'):,} cases in {len(subs)} sub-spaces (largest: " + ", ".join(f"{n} {v:,}" for n, v in top) + ")"
        b = c[k]['bounds'].get(tier, '')
        if ' || measured:' in b:
            b = b[:b.index(' || measured:')]
        c[k]['bounds'][tier] = b + ' || ' + txt
json.dump(c, open('/verif/checks.json', 'w'), indent=1, ensure_ascii=False)
print("checks.json refreshed")

#!/usr/bin/env python3
"""Regenerates MANIFEST.json from checks.json (claimed checks) and na.json (not applicable)."""
import json, os
ROOT = os.path.dirname(os.path.abspath(__file__))
meta = json.load(open(os.path.join(ROOT, "checks.json")))
na = json.load(open(os.path.join(ROOT, "na.json")))
hooks_commits = json.load(open(os.path.join(ROOT, "hooks.json")))
checks = []
for pid in sorted(meta):
    m = meta[pid]
    checks.append({
        "property_id": pid,
        "quick_cmd": f"./check {pid} quick",
        "thorough_cmd": f"./check {pid} thorough",
        "evidence_file": f"/verif/evidence/{pid}.json",
        "replay_cmd_template": "./check --replay {path}",
        "engine": m["engine"],
        "level_claimed": {"category": "model_checking", "text": m["level_text"], "design_ref": m["design_ref"]},
        "level_note": m["level_note"],
        "technique": m["technique"],
    })
man = {
    "version": 1,
    "setup_cmd": "./check setup",
    "hooks": {
        "guard": "cargo feature `verif-hooks` of cel-interpreter (off by default)",
        "enable": "the harness crate /verif/mc depends on /repo/interpreter with features = [\"json\",\"chrono\",\"regex\",\"verif-hooks\"]; every check runs `cargo build --release --offline` in /verif/mc first, which rebuilds from /repo's working tree",
        "baseline_off_cmd": "cd /repo && cargo test --workspace --no-fail-fast --offline",
        "source_commits": hooks_commits,
        "add_only": True,
    },
    "engines": [
        {"name": "E1", "path": "/verif/mc/src/core.rs", "serves_properties": sorted(p for p in meta if "E1" in meta[p]["engine"]),
         "kind_free_text": "bounded-exhaustive enumeration of input/program spaces on the real code, sharded over 16 worker processes, every case compared with a reference model; replay by (sub-space, index)"},
        {"name": "E2", "path": "/verif/mc/src/e2.rs", "serves_properties": sorted(p for p in meta if "E2" in meta[p]["engine"]),
         "kind_free_text": "explicit-state BFS over event histories; every state is rebuilt by replaying its history on fresh real objects; canonical-state deduplication"},
        {"name": "E3", "path": "/verif/mc/src/e3.rs", "serves_properties": sorted(p for p in meta if "E3" in meta[p]["engine"]),
         "kind_free_text": "CHESS-style preemption-bounded exhaustive schedule exploration of real threads, scheduling point = every Value::resolve entry (verif-hooks observer)"},
    ],
    "checks": checks,
    "not_applicable": na,
    "notes": "All checks are driven by /verif/check (python3, stdlib only) and the harness crate /verif/mc. Exit 2 = machinery failure, never a verdict. Known findings: /verif/known_findings.txt.",
}
json.dump(man, open(os.path.join(ROOT, "MANIFEST.json"), "w"), indent=1)
print("MANIFEST.json:", len(checks), "checks,", len(na), "not applicable")
